#!/bin/bash
# usage: tools/seed_eval.sh <worktree dir with change + demo.py> <PROP> [tier] [more props...]
# 1. confirms in the worktree: suite passes with the change, demo fails with / passes without the change
# 2. runs the check(s) against the changed tree: by default a scratch copy of /repo with the change applied
#    (GOODWE_SRC); with SEED_IN_REPO=1 the change is applied to /repo itself (git apply) and undone straight afterwards
WT=$1; PROP=$2; TIER=${3:-quick}; shift 3 2>/dev/null
cd "$WT" || exit 2
echo "--- suite with change:"; /venv/bin/python -m pytest -q -p no:cacheprovider 2>&1 | tail -1
run_demo() { if grep -q "def test_" demo.py 2>/dev/null && ! grep -q "__main__" demo.py; then timeout 300 /venv/bin/python -m pytest -q -p no:cacheprovider demo.py >/dev/null 2>&1; else timeout 300 /venv/bin/python demo.py >/dev/null 2>&1; fi; echo $?; }
echo "--- demo with change (want non-zero): $(run_demo)"
git diff -- goodwe > /tmp/seed_eval.$$.diff
git checkout -q -- goodwe; echo "--- demo without change (want 0): $(run_demo)"; git apply /tmp/seed_eval.$$.diff   # (no git stash: the stash is shared between worktrees)
cmp -s /tmp/seed_eval.$$.diff MUTATION.diff || echo "--- note: worktree diff differs from MUTATION.diff"
/verif/tools/seed_run.sh /tmp/seed_eval.$$.diff $PROP $TIER "$@"
rm -f /tmp/seed_eval.$$.diff
