#!/bin/bash
# usage: tools/seed_eval.sh <worktree dir with MUTATION.diff + demo.py> <PROP> [tier] [more props...]
# 1. confirms in the worktree: suite passes with the change, demo fails with / passes without the change
# 2. applies the change to /repo, runs the quick check(s), and undoes it straight afterwards
WT=$1; PROP=$2; TIER=${3:-quick}; shift 3 2>/dev/null
cd "$WT" || exit 2
echo "--- suite with change:"; /venv/bin/python -m pytest -q -p no:cacheprovider 2>&1 | tail -1
run_demo() { if grep -q "def test_" demo.py 2>/dev/null && ! grep -q "__main__" demo.py; then timeout 300 /venv/bin/python -m pytest -q -p no:cacheprovider demo.py >/dev/null 2>&1; else timeout 300 /venv/bin/python demo.py >/dev/null 2>&1; fi; echo $?; }
echo "--- demo with change (want non-zero): $(run_demo)"
git diff -- goodwe > /tmp/seed_eval.diff
git checkout -q -- goodwe; echo "--- demo without change (want 0): $(run_demo)"; git apply /tmp/seed_eval.diff   # (no git stash: the stash is shared between worktrees)
if [ -n "$(git -C /repo status --porcelain -- goodwe)" ]; then echo "REPO DIRTY - abort"; exit 2; fi
git -C /repo apply /tmp/seed_eval.diff || { echo "cannot apply"; exit 2; }
cd /verif
for P in $PROP "$@"; do
  MC_EVIDENCE_DIR=/var/tmp/seed_ev MC_REPLAY_DIR=/var/tmp/seed_rp /venv/bin/python -m mc.cli $P --tier $TIER 2>&1 | grep -E "^(VIOLATION|  key=|C[0-9]+ tier|HARNESS)" | grep -v KNOWN | head -6 | cut -c1-230
done
git -C /repo checkout -- . ; rm -rf /var/tmp/seed_ev /var/tmp/seed_rp
echo "--- repo restored: $(git -C /repo status --porcelain | wc -l) dirty files"
