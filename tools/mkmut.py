#!/venv/bin/python
"""tools/mkmut.py <name> <file relative to /repo> <<< python dict literal list of (old,new) -> mutants/<name>.diff"""
import subprocess, sys, os, tempfile, ast
name, rel = sys.argv[1], sys.argv[2]
pairs = ast.literal_eval(sys.stdin.read())
src = open('/repo/' + rel).read()
new = src
for old, rep in pairs:
    assert new.count(old) >= 1, ('not found', old)
    new = new.replace(old, rep, 1)
with tempfile.TemporaryDirectory() as d:
    os.makedirs(os.path.join(d, 'a', os.path.dirname(rel))); os.makedirs(os.path.join(d, 'b', os.path.dirname(rel)))
    open(os.path.join(d, 'a', rel), 'w').write(src); open(os.path.join(d, 'b', rel), 'w').write(new)
    out = subprocess.run(['diff', '-u', 'a/' + rel, 'b/' + rel], cwd=d, capture_output=True, text=True).stdout
open(f'/verif/mutants/{name}.diff', 'w').write(out)
print(out)
