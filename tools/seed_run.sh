#!/bin/bash
# usage: tools/seed_run.sh <seeded/<id> dir or patch.diff> <PROP> [tier] [more props]  - apply an archived seed to /repo, run checks, undo
P=$(realpath $1); [ -d "$P" ] && P=$P/patch.diff; PROP=$2; TIER=${3:-quick}; shift 3 2>/dev/null
if [ -n "$(git -C /repo status --porcelain -- goodwe)" ]; then echo "REPO DIRTY - abort"; exit 2; fi
git -C /repo apply "$P" || { echo "cannot apply"; exit 2; }
cd /verif
for X in $PROP "$@"; do
  MC_EVIDENCE_DIR=/var/tmp/seed_ev MC_REPLAY_DIR=/var/tmp/seed_rp /venv/bin/python -m mc.cli $X --tier $TIER 2>&1 | grep -E "^(VIOLATION|  key=|C[0-9]+ tier|HARNESS)" | grep -v "^VIOLATION" | head -${LINES_MAX:-5} | cut -c1-200
done
git -C /repo checkout -- . ; rm -rf /var/tmp/seed_ev /var/tmp/seed_rp
