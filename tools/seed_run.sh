#!/bin/bash
# usage: tools/seed_run.sh <seeded/<id> dir or patch.diff> <PROP> [tier] [more props]
# runs checks against /repo + patch: scratch copy via GOODWE_SRC (default) or, with SEED_IN_REPO=1, git apply on /repo + undo
P=$(realpath $1); [ -d "$P" ] && P=$P/patch.diff; PROP=$2; TIER=${3:-quick}; shift 3 2>/dev/null
if [ -n "$SEED_IN_REPO" ]; then
  if [ -n "$(git -C /repo status --porcelain -- goodwe)" ]; then echo "REPO DIRTY - abort"; exit 2; fi
  git -C /repo apply "$P" || { echo "cannot apply"; exit 2; }
  SRC=/repo
else
  SRC=$(mktemp -d /var/tmp/gwseed.XXXXXX); cp -r /repo/goodwe $SRC/; ( cd $SRC && patch -p1 -s < "$P" ) || { echo "cannot apply"; rm -rf $SRC; exit 2; }
fi
cd /verif
for X in $PROP "$@"; do
  GOODWE_SRC=$SRC MC_EVIDENCE_DIR=/var/tmp/seed_ev.$$ MC_REPLAY_DIR=/var/tmp/seed_rp.$$ /venv/bin/python -m mc.cli $X --tier $TIER 2>&1 | grep -E "^(VIOLATION|  key=|C[0-9]+ tier|HARNESS)" | grep -v "^VIOLATION" | head -${LINES_MAX:-5} | cut -c1-200
done
if [ -n "$SEED_IN_REPO" ]; then git -C /repo checkout -- . ; echo "--- repo restored: $(git -C /repo status --porcelain | wc -l) dirty files"; else rm -rf $SRC; fi
rm -rf /var/tmp/seed_ev.$$ /var/tmp/seed_rp.$$
