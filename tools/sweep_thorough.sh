#!/bin/bash
# runs every thorough check once (evidence/replays redirected), prints one line per check
export MC_EVIDENCE_DIR=${MC_EVIDENCE_DIR:-/var/tmp/sweep_ev_$$} MC_REPLAY_DIR=${MC_REPLAY_DIR:-/var/tmp/sweep_rp_$$}
for c in C01 C02 C03 C04 C05 C06 C07 C08 C09 C10 C11 C12 C13 C14 C15 C16 C17 C18 C19 C20; do
  /usr/bin/time -f "$c %es" /venv/bin/python -m mc.cli $c --tier ${1:-thorough} 2>&1 | grep -E "^C[0-9]+ (tier|[0-9.]+s)|^VIOLATION|HARNESS|rror" | cut -c1-140
done
rm -rf $MC_EVIDENCE_DIR
