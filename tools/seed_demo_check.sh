#!/bin/bash
# usage: tools/seed_demo_check.sh [seed ids...]   (default: all)
# Re-runs every archived demonstration against the CURRENT /repo: with the change applied (must fail) and without (must pass).
# A change whose demonstration passes with the change applied is no longer a defect on this tree (neutralised by a later fix).
cd /verif
ids=${@:-$(ls seeded)}
for id in $ids; do
  d=seeded/$id
  S=$(mktemp -d /var/tmp/sdc.XXXXXX)
  git -C /repo archive HEAD goodwe tests | tar -x -C $S
  sed "s#/tmp/wt/[A-Za-z0-9_]*#$S#g" $d/demo.py > $S/demo.py
  ( cd $S && timeout 300 env PYTHONPATH=$S /venv/bin/python demo.py >/dev/null 2>&1 ); wo=$?
  ( cd $S && patch -p1 -s < /verif/$d/patch.diff >/dev/null 2>&1 ) || { echo "NOAPPLY  $id"; rm -rf $S; continue; }
  ( cd $S && timeout 300 env PYTHONPATH=$S /venv/bin/python demo.py >/dev/null 2>&1 ); w=$?
  if [ $w -ne 0 ] && [ $wo -eq 0 ]; then echo "OK       $id (with=$w without=$wo)"; elif [ $w -eq 0 ]; then echo "NEUTRAL  $id (with=$w without=$wo)"; else echo "ODD      $id (with=$w without=$wo)"; fi
  rm -rf $S
done
