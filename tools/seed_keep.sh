#!/bin/bash
# usage: tools/seed_keep.sh <worktree> <seed id> <PROP> "<needs to manifest>" "<detected by: ...>"
WT=$1; ID=$2; PROP=$3; NEEDS=$4; DET=$5
D=/verif/seeded/$ID; mkdir -p $D
git -C $WT diff -- goodwe > $D/patch.diff
cp $WT/demo.py $D/demo.py; cp $WT/NOTES.md $D/NOTES.md 2>/dev/null
/venv/bin/python - "$ID" "$PROP" "$NEEDS" "$DET" <<'P'
import json,sys,subprocess
id_,prop,needs,det=sys.argv[1:5]
json.dump(dict(id=id_, breaks_property=prop, needs_to_manifest=needs,
  origin='written by an independent sub-agent that saw only the property text and a scratch worktree of /repo',
  base_commit=subprocess.run(['git','-C','/repo','log','--format=%h','-1'],capture_output=True,text=True).stdout.strip(),
  confirmed=['existing suite passes with the change (115 passed)','demo.py fails with the change, passes without it (re-run by me in the worktree)'],
  ran=f'tools/seed_eval.sh <worktree> {prop} quick  (git -C /repo apply patch.diff; python -m mc.cli {prop} --tier quick; git -C /repo checkout -- .)',
  result=det), open(f'/verif/seeded/{id_}/meta.json','w'), indent=1)
P
echo kept $D
