#!/venv/bin/python
"""Pins the register map (id -> type, address, scale, unit) encoded in the sensor tables of the tree at GOODWE_SRC."""
import json, sys
sys.path.insert(0, '/verif')
from mc import world
out = {}
for fam, cls in world.FAMILIES.items():
    for name, sensors in world.tables(cls).items():
        out[f'{fam}.{name}'] = [[s.id_, type(s).__name__, s.offset, getattr(s, 'scale', None), getattr(s, '_offsetL', None), s.unit]
                                for s in sensors]
json.dump(out, open('/verif/mc/data/address_map.json', 'w'), indent=0)
print({k: len(v) for k, v in out.items()})
# label tables: which const table each label sensor uses, and the tables' contents
import goodwe.const as C
names = {id(v): k for k, v in vars(C).items() if isinstance(v, dict)}
lab = {}
for fam, cls in world.FAMILIES.items():
    for name, sensors in world.tables(cls).items():
        for s in sensors:
            if hasattr(s, '_labels'):
                lab[f'{fam}.{name}.{s.id_}'] = names.get(id(s._labels), '?')
consts = {k: {str(a): b for a, b in v.items()} for k, v in vars(C).items() if isinstance(v, dict) and not k.startswith('__') and all(isinstance(b, str) for b in v.values())}
json.dump(dict(label_tables=lab, consts=consts), open('/verif/mc/data/labels.json', 'w'), indent=0, sort_keys=True)
print(len(lab), 'label sensors', len(consts), 'const tables')
