#!/bin/bash
# usage: tools/replay_test.sh <seeded id> <PROP> : run the check against the seed, then replay every violation file with and without the change
SD=/verif/seeded/$1; PROP=$2
D=$(mktemp -d /var/tmp/rt.XXXX); cp -r /repo/goodwe $D/; (cd $D && patch -p1 -s < $SD/patch.diff)
GOODWE_SRC=$D MC_EVIDENCE_DIR=$D/ev MC_REPLAY_DIR=$D/rp /venv/bin/python -m mc.cli $PROP --tier quick >/dev/null 2>&1
for f in $(ls $D/rp/$PROP/*.json 2>/dev/null | head -${3:-4}); do
  a=$(GOODWE_SRC=$D /venv/bin/python -m mc.replay $f 2>&1 | tail -1); b=$(/venv/bin/python -m mc.replay $f 2>&1 | tail -1)
  echo "$(basename $f | cut -c1-70): with change=$a, unchanged=$b"
done
rm -rf $D
