#!/bin/bash
# usage: tools/mut.sh <patch.diff> <PROP> [tier]   - run one check against a scratch copy of /repo with the patch applied
set -e
P=$(realpath "$1"); PROP=$2; TIER=${3:-quick}
D=$(mktemp -d /var/tmp/gwmut.XXXXXX)
trap 'rm -rf "$D"' EXIT
cp -r /repo/goodwe /repo/tests /repo/setup.cfg /repo/pyproject.toml "$D"/ 2>/dev/null || true
( cd "$D" && patch -p1 -s < "$P" )
if [ -n "$RUN_TESTS" ]; then ( cd "$D" && /venv/bin/python -m pytest -q -p no:cacheprovider -x 2>&1 | tail -1 ); fi
cd /verif && GOODWE_SRC="$D" MC_EVIDENCE_DIR="$D/evidence" MC_REPLAY_DIR="$D/replays" /venv/bin/python -m mc.cli "$PROP" --tier "$TIER" 2>&1 | grep -E "^(VIOLATION|  key=|C[0-9]+ tier|KNOWN|HARNESS|Traceback|\w*Error)" | head -${LINES_MAX:-12}
