"""Writes mc/data/healthy_ids.json: the ids a settled object reports for an inverter that refuses nothing, per family, serial
tag, rated power and battery mode - taken ONCE from the pinned tree (/repo at 7fd25d9) and committed.  C15 compares against it
("supported ones are all present" needs an expectation that does not come from the code under test at check time)."""
import json
import os
import sys

sys.path.insert(0, os.path.dirname(os.path.dirname(os.path.abspath(__file__))))
from mc.configs import ET_TAGS, DT_TAGS, POWERS, make_rig  # noqa: E402

sets, index = [], {}
for fam, tags, powers, bms in (('ET', ET_TAGS, POWERS + (32767, 32768, 40000, 65535), (0, 2)), ('DT', DT_TAGS, (3000, 25000), (0,))):
    for tag in tags:
        for p in powers:
            for bm in bms:
                r = make_rig(dict(family=fam, tag=tag, power=p, refused=(), battery_mode=bm))
                if r.call(r.inv.read_device_info)[0] != 'ok':
                    continue
                r.call(r.inv.read_runtime_data)
                r.call(r.inv.read_runtime_data)
                res = r.call(r.inv.read_runtime_data)
                if res[0] != 'ok':
                    continue
                ids = sorted(res[1])
                if ids not in sets:
                    sets.append(ids)
                index[f'{fam}|{tag}|{p}|{bm}'] = sets.index(ids)
out = os.path.join(os.path.dirname(os.path.dirname(os.path.abspath(__file__))), 'mc', 'data', 'healthy_ids.json')
json.dump(dict(sets=sets, index=index), open(out, 'w'), separators=(',', ':'))
print(len(index), 'configurations,', len(sets), 'distinct id sets ->', out)
