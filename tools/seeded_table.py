#!/venv/bin/python
"""Rewrites section 7.6 of DESIGN.md from seeded/*/meta.json."""
import glob, json, re
rows = []
for f in sorted(glob.glob('/verif/seeded/*/meta.json')):
    m = json.load(open(f))
    res = m['result']
    status = 'missed at first, check strengthened, now detected' if res.lower().startswith('missed') else 'detected'
    if m.get('status') == 'neutralised':
        status += '; NEUTRALISED since by fix 124d74c (its demonstration passes with the change applied to the repaired tree)'
    if m.get('status') == 'out-of-scope':
        status = 'NOT CLAIMED: outside what the property quantifies over (see detail)'
    if m.get('ported'):
        status += '; patch re-based by hand onto 124d74c'
    rows.append(f"| {m['id']} | {m['breaks_property']} | {m['needs_to_manifest'][:230]} | {status} | {res[:420]} |")
txt = """### 7.6 Independently written changes (seeded/<id>/: patch.diff, demo.py, NOTES.md, meta.json)

Each was written by a fresh sub-agent that saw only the text of one property and a scratch worktree of /repo (nothing
from /verif), asked for a change that still passes the 115 tests and needs something specific to manifest.  For each I
re-ran the suite with the change, re-ran the demonstration with and without it, and ran the quick check of the
property (tools/seed_eval.sh; tools/seeded_regress.sh re-runs all of them; tools/seed_demo_check.sh re-runs every
demonstration against the current /repo - after a repair in /repo some changes stop being defects and are marked so).  Second-round agents (w4) were told which
ideas had been tried and asked for a defect that survives a checker looking at single calls on fresh objects.

| seed | property | needs to manifest | outcome | detail |
|---|---|---|---|---|
""" + "\n".join(rows) + """

What the misses taught (each led to a general strengthening, not a special case):
* state shared between *sensor objects* only shows when different sensors see the same bytes in one process -> C12 decodes
  whole tables with uniform contents in table order and reverse order;
* state shared between *protocol / inverter objects* only shows with a second object active -> C20 pairs of every family
  variant incl. devices that refuse settings or fragment answers, solo run = the other object does not exist; C07 'pair';
* defects that need a *previous request on the same object* -> non-initial states in C04, C06, C07 (cross), C08 (histories);
* overlapping calls on one object -> C09 part (d);
* leaks visible only at descriptor level -> C10 holds transports weakly and counts sockets after gc.
"""
s = open('/verif/DESIGN.md').read()
if '### 7.6 ' in s:
    s = s[:s.index('### 7.6 ')] + txt
else:
    s = s.rstrip('\n') + '\n\n' + txt
open('/verif/DESIGN.md', 'w').write(s)
print(len(rows), 'seeds')
