#!/bin/bash
# every archived independently written change must still be detected by the quick check of the property it breaks
cd /verif
# ORDER: space separated property ids to take first (the others follow), e.g. ORDER="C14 C15 C16 C17 C18 C19 C20"
list=""
for p in $ORDER; do list="$list $(ls -d seeded/$p-*/ 2>/dev/null | tr "\n" " ")"; done
for d in seeded/*/; do case " $list " in *" $d "*) ;; *) list="$list $d";; esac; done
for d in $list; do
  id=$(basename $d); prop=$(/venv/bin/python -c "import json;print(json.load(open('$d/meta.json'))['breaks_property'])")
  if grep -q "\"status\": \"neutralised\"" $d/meta.json; then echo "NEUTRAL  $id (no longer a defect on the repaired tree)"; continue; fi
  if grep -q "\"status\": \"out-of-scope\"" $d/meta.json; then echo "OUTSIDE  $id (needs something the property does not quantify over)"; continue; fi
  out=$(LINES_MAX=100000 timeout -k 10 1500 tools/seed_run.sh $d $prop ${1:-quick} 2>&1)
  if echo "$out" | grep -q "violations=0 "; then echo "MISSED   $id ($prop)"; elif echo "$out" | grep -q "violations="; then echo "DETECTED $id ($prop) $(echo "$out" | grep -c 'key=') keys"; else echo "ERROR    $id: $out" | head -3; fi
done
