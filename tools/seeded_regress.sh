#!/bin/bash
# every archived independently written change must still be detected by the quick check of the property it breaks
cd /verif
for d in seeded/*/; do
  id=$(basename $d); prop=$(/venv/bin/python -c "import json;print(json.load(open('$d/meta.json'))['breaks_property'])")
  if grep -q "\"status\": \"neutralised\"" $d/meta.json; then echo "NEUTRAL  $id (no longer a defect on the repaired tree)"; continue; fi
  if grep -q "\"status\": \"out-of-scope\"" $d/meta.json; then echo "OUTSIDE  $id (needs something the property does not quantify over)"; continue; fi
  out=$(LINES_MAX=100000 tools/seed_run.sh $d $prop ${1:-quick} 2>&1)
  if echo "$out" | grep -q "violations=0 "; then echo "MISSED   $id ($prop)"; elif echo "$out" | grep -q "violations="; then echo "DETECTED $id ($prop) $(echo "$out" | grep -c 'key=') keys"; else echo "ERROR    $id: $out" | head -3; fi
done
