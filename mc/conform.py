"""Binding the kernel model to reality: replay explorer traces against real sockets on 127.0.0.1.

Every explored execution already runs the implementation itself; what is modelled is the kernel below asyncio.
This module replays a fixed set of explorer traces (one per alphabet letter, transport and keep-alive setting,
delays far from ties) on the stock asyncio event loop over the OS loopback and compares abstract observations
(number of transmissions, outcome class, result bytes) with the same trace on Engine K.  It runs in real time, so a
mismatch is retried and finally reported as a *warning* in the evidence - never as a VIOLATION: it says something
about the harness, nothing about the property.
"""
from __future__ import annotations

import asyncio
import time

from . import world
from .explore import Ctx
from .peer import ScriptPeer, alphabet
from .proto import make_command, run_single

gp = world.gp
T_REAL = 0.25
SKIP = {'valid@T-e', 'valid@T+e', 'senderr-netunreach', 'senderr-hostunreach', 'icmp'}   # ties / not producible on loopback


class _Clock:
    def __init__(self, loop):
        self.loop = loop

    @property
    def now(self):
        return self.loop.time()


class RealPeerUDP(asyncio.DatagramProtocol):
    """Serves the answers a ScriptPeer would serve, over a real UDP socket."""

    def __init__(self, script, T):
        self.sp = ScriptPeer('udp', T)
        self.sp.forced = list(script)
        self.sp.default_letter = 'valid'
        self.n = 0

    def connection_made(self, tr):
        self.tr = tr

    def datagram_received(self, data, addr):
        loop = asyncio.get_running_loop()
        self.n += 1
        outer = self

        class K:
            now = loop.time()

            @staticmethod
            def at(when, sock, item):
                if item[0] == 'data':
                    loop.call_later(max(0.0, when - K.now), outer.tr.sendto, item[1], addr)
        self.sp.kern = K

        class S:
            fd = 0
        self.sp.on_send(S, data)


class RealPeerTCP(asyncio.Protocol):
    def __init__(self, owner):
        self.owner = owner

    def connection_made(self, tr):
        self.tr = tr

    def data_received(self, data):
        loop = asyncio.get_running_loop()
        o = self.owner
        o['n'] += 1
        tr = self.tr

        class K:
            now = loop.time()

            @staticmethod
            def at(when, sock, item):
                d = max(0.0, when - K.now)
                if item[0] == 'data':
                    loop.call_later(d, lambda: (not tr.is_closing()) and tr.write(item[1]))
                elif item[0] == 'eof':
                    loop.call_later(d, tr.close)
                elif item[0] == 'err':
                    loop.call_later(d, tr.abort)
        o['sp'].kern = K

        class S:
            fd = 0
        o['sp'].on_send(S, data)


async def real_run(transport, script, ka, R):
    loop = asyncio.get_running_loop()
    if transport == 'udp':
        tr, srv = await loop.create_datagram_endpoint(lambda: RealPeerUDP(script, T_REAL), local_addr=('127.0.0.1', 0))
        port = tr.get_extra_info('sockname')[1]
        p = gp.UdpInverterProtocol('127.0.0.1', port, 0xF7, T_REAL, R)
        count = lambda: srv.n  # noqa: E731
        closer = tr.close
    else:
        sp = ScriptPeer('tcp', T_REAL)
        sp.forced = list(script)
        sp.default_letter = 'valid'
        owner = dict(sp=sp, n=0)
        server = await loop.create_server(lambda: RealPeerTCP(owner), '127.0.0.1', 0)
        port = server.sockets[0].getsockname()[1]
        p = gp.TcpInverterProtocol('127.0.0.1', port, 0xF7, T_REAL, R)
        count = lambda: owner['n']  # noqa: E731
        closer = server.close
    p.keep_alive = ka
    cmd = make_command(p, 'read')
    try:
        r = await asyncio.wait_for(cmd.execute(p), 10)
        out = ('ok', r.raw_data[2:] if transport == 'tcp' else r.raw_data)
    except BaseException as e:  # noqa: BLE001
        out = ('exc', type(e).__name__)
    await asyncio.sleep(0.02)
    try:
        await p.close()
    except BaseException:  # noqa: BLE001
        pass
    closer()
    return out, count()


def model_run(transport, script, ka, R):
    letters = alphabet(transport)
    cfg = dict(transport=transport, ka=ka, T=1.0, R=R, cmd='read')
    ctx = Ctx([letters.index(x) for x in script])
    obs = run_single(cfg, ctx, letters, ['ok'], fp=False)
    r = obs.result
    out = ('ok', r[1][2:] if transport == 'tcp' else r[1]) if r[0] == 'ok' else ('exc', r[1])
    return out, len(obs.txs)


def traces():
    for transport in ('udp', 'tcp'):
        for ka in (False, True):
            for ltr in alphabet(transport):
                if ltr in SKIP:
                    continue
                yield transport, [ltr], ka, 1
            yield transport, ['drop', 'drop'], ka, 1
            yield transport, ['garbage', 'frag2@.4T'], ka, 2


def run_all(max_attempts=3):
    """-> (n traces, n agreeing, list of persistent mismatches)"""
    todo = list(traces())
    agree = 0
    mismatches = []
    model = {i: model_run(*t) for i, t in enumerate(todo)}
    pending = list(range(len(todo)))
    for attempt in range(max_attempts):
        if not pending:
            break

        async def batch(idx):
            return await asyncio.gather(*[real_run(*todo[i]) for i in idx])
        world.reset()
        t0 = time.time()
        res = asyncio.run(batch(pending))
        still = []
        for i, r in zip(pending, res):
            if r == model[i]:
                agree += 1
            else:
                still.append(i)
                last = (i, r)
        pending = still
    for i in pending:
        mismatches.append(dict(trace=[todo[i][0], todo[i][1], todo[i][2], todo[i][3]], model=str(model[i])[:120]))
    return len(todo), agree, mismatches


if __name__ == '__main__':
    n, a, m = run_all()
    print(n, 'traces', a, 'agree')
    for x in m:
        print('MISMATCH', x)
