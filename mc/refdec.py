"""Reference decoders / encoders per sensor *type name* (written from the class docstrings and the values the
shipped tests document; imports no goodwe helper).  Label tables are data and are taken from the sensor objects.
"""
from __future__ import annotations

import datetime as _dt
import struct

NOVALUE = object()   # "raises ValueError / reported as None by the bulk read"
# Group references carry '_either': True when the day byte has bit 7 set (other than 0xFF) or the month word has
# bits above Dec: the documented encoding does not cover these patterns, so both "no value" and a decoded group
# are accepted for them.

DAY_NAMES = ["Sun", "Mon", "Tue", "Wed", "Thu", "Fri", "Sat"]
MONTH_NAMES = ["Jan", "Feb", "Mar", "Apr", "May", "Jun", "Jul", "Aug", "Sep", "Oct", "Nov", "Dec"]


def u(b):
    return int.from_bytes(b, 'big', signed=False)


def s(b):
    return int.from_bytes(b, 'big', signed=True)


def bitmap_text(value: int, labels: dict, nbits=32) -> str:
    out = []
    for i in range(nbits):
        if value >> i & 1:
            lab = labels.get(i, f'err{i}')
            if lab:
                out.append(lab)
    return ", ".join(out)


def days_text(bits: int):
    """bits: signed byte.  -1 -> every day; 0 -> none; bits 0..6 = Sun..Sat.  Bit 7 set (other than 0xFF) is
    outside the documented encoding -> None (not compared)."""
    if bits == -1:
        return "Mon-Sun"
    if bits < 0:
        return None
    return ",".join(DAY_NAMES[i] for i in range(7) if bits >> i & 1)


def months_text(bits: int):
    """bits: signed 16 bit.  <=0 or 0x0fff -> no restriction (None); bits 0..11 = Jan..Dec; higher bits undocumented."""
    if bits <= 0 or bits == 0x0FFF:
        return ('value', None)
    if bits >= 0x1000:
        return None
    return ('value', ",".join(MONTH_NAMES[i] for i in range(12) if bits >> i & 1))


SCHEDULE_TYPES = {0: 'ECO_MODE', 1: 'DRY_CONTACT_LOAD', 2: 'DRY_CONTACT_SMART_LOAD', 3: 'PEAK_SHAVING',
                  4: 'BACKUP_MODE', 5: 'SMART_CHARGE_MODE', 6: 'ECO_MODE_745', 85: 'NOT_SET'}


def schedule_type_of(on_off: int):
    """on/off byte (signed): type t is stored as t (off) or -1-t (on); 85 = not set."""
    if on_off == 85:
        return 85
    t = on_off if on_off >= 0 else -1 - on_off
    if 0 <= t <= 6:
        return t
    return None


def hour_ok(h, allow_unset):
    return 0 <= h <= 23 or h == 48 or (allow_unset and h == -1)


def minute_ok(m, allow_unset):
    return 0 <= m <= 59 or (allow_unset and m == -1)


def decode_eco_v1(b: bytes):
    """8 bytes: start_h start_m end_h end_m power(s16) on_off days -> dict or NOVALUE."""
    sh, sm, eh, em = (s(b[i:i + 1]) for i in range(4))
    power = s(b[4:6])
    on_off = s(b[6:7])
    days = s(b[7:8])
    if not (hour_ok(sh, False) and minute_ok(sm, False) and hour_ok(eh, False) and minute_ok(em, False)):
        return NOVALUE
    if not -100 <= power <= 100:
        return NOVALUE
    if on_off not in (0, -1):
        return NOVALUE
    return dict(start_h=sh, start_m=sm, end_h=eh, end_m=em, power=power, on_off=on_off, day_bits=days,
                days=days_text(days), _either=(days < -1))


def decode_schedule(b: bytes):
    """12 bytes: start_h start_m end_h end_m on_off days power(s16) soc(s16) months(s16)."""
    sh, sm, eh, em = (s(b[i:i + 1]) for i in range(4))
    on_off = s(b[4:5])
    days = s(b[5:6])
    power = s(b[6:8])
    soc = s(b[8:10])
    months = s(b[10:12])
    if not (hour_ok(sh, True) and minute_ok(sm, True) and hour_ok(eh, True) and minute_ok(em, True)):
        return NOVALUE
    st = schedule_type_of(on_off)
    if st is None:
        return NOVALUE
    if st == 0 and not -100 <= power <= 100:
        return NOVALUE
    if st == 6 and not -1000 <= power <= 1000:
        return NOVALUE
    if not 0 <= soc <= 100:
        return NOVALUE
    return dict(start_h=sh, start_m=sm, end_h=eh, end_m=em, on_off=on_off, day_bits=days, days=days_text(days),
                power=power, soc=soc, month_bits=months, months=months_text(months), schedule_type=st,
                _either=(days < -1 or months >= 0x1000))


def power_percent(st: int, raw: int):
    """Human readable power of a schedule group (documented scaling: peak shaving x10 W, 745 platform 0.1 %)."""
    if st == 3:
        return raw * 10
    if st == 6:
        return int(raw / 10)
    if st == 85:
        return raw if -100 <= raw <= 100 else int(raw / 10)
    return raw


def size_of(sensor) -> int:
    """bytes the documented type occupies (NOT sensor.size_, which C16 examines)."""
    t = type(sensor).__name__
    return {'Voltage': 2, 'Current': 2, 'CurrentS': 2, 'Frequency': 2, 'Power': 2, 'PowerS': 2, 'Power4': 4, 'Power4S': 4,
            'Energy': 2, 'Energy4': 4, 'Energy4W': 4, 'Energy8': 8, 'Apparent': 2, 'Apparent4': 4, 'Reactive': 2,
            'Reactive4': 4, 'Temp': 2, 'CellVoltage': 2, 'Byte': 1, 'ByteH': 1, 'ByteL': 2, 'Integer': 2, 'IntegerS': 2,
            'Long': 4, 'LongS': 4, 'Decimal': 2, 'Float': 4, 'Timestamp': 6, 'Enum': 1, 'EnumH': 1, 'EnumL': 2,
            'Enum2': 2, 'EnumBitmap4': 4, 'EcoModeV1': 8, 'Schedule': 12, 'EcoModeV2': 12, 'PeakShavingMode': 12,
            }.get(t, 0)


def decode(sensor, b: bytes):
    """Reference value of `sensor` for its own bytes `b` (len = size_of(sensor)) -> value | NOVALUE | None-as-value."""
    t = type(sensor).__name__
    if t in ('Voltage', 'Current'):
        v = u(b)
        return v / 10 if v != 0xFFFF else 0
    if t == 'CurrentS':
        return s(b) / 10
    if t == 'Frequency':
        return s(b) / 100
    if t == 'Power':
        v = u(b)
        return None if v == 0xFFFF else v
    if t in ('PowerS', 'Apparent', 'Reactive', 'IntegerS'):
        return s(b)
    if t == 'Power4':
        v = u(b)
        return None if v == 0xFFFFFFFF else v
    if t in ('Power4S', 'Apparent4', 'Reactive4', 'LongS'):
        return s(b)
    if t == 'Energy':
        v = u(b)
        return None if v == 0xFFFF else v / 10
    if t == 'Energy4':
        v = u(b)
        return None if v == 0xFFFFFFFF else v / 10
    if t == 'Energy4W':
        v = u(b)
        return None if v == 0xFFFFFFFF else v / 1000
    if t == 'Energy8':
        v = u(b)
        return None if v == 0xFFFFFFFFFFFFFFFF else v / 100
    if t == 'Temp':
        v = s(b)
        return None if v in (-1, 32767) else v / 10
    if t == 'CellVoltage':
        v = u(b)
        return (v / 10 if v != 0xFFFF else 0) / 100
    if t in ('Byte', 'ByteH'):
        return s(b[0:1])
    if t == 'ByteL':
        return s(b[1:2])
    if t == 'Integer':
        v = u(b)
        return 0 if v == 0xFFFF else v
    if t == 'Long':
        v = u(b)
        return 0 if v == 0xFFFFFFFF else v
    if t == 'Decimal':
        return s(b) / sensor.scale
    if t == 'Float':
        return round(struct.unpack('>f', b)[0] / sensor.scale, 3)
    if t == 'Timestamp':
        try:
            return _dt.datetime(2000 + b[0], b[1], b[2], b[3], b[4], b[5])
        except ValueError:
            return NOVALUE
    if t in ('Enum', 'EnumH'):
        return sensor._labels.get(s(b[0:1]))
    if t == 'EnumL':
        return sensor._labels.get(s(b[1:2]))
    if t == 'Enum2':
        v = u(b)
        return sensor._labels.get(0 if v == 0xFFFF else v)
    if t == 'EnumBitmap4':
        v = s(b)
        return bitmap_text(0 if v == -1 else v & 0xFFFFFFFF, sensor._labels)
    if t == 'EcoModeV1':
        return decode_eco_v1(b)
    if t in ('Schedule', 'EcoModeV2', 'PeakShavingMode'):
        return decode_schedule(b)
    raise KeyError(t)


def same(a, b) -> bool:
    """value equality used by the checks: exact for ints/strings/None, floats up to 4e-15 relative (one or two units in the
    last place: 8-byte counters beyond 2^53 round differently in float(n)/100 and n/100); NaN==NaN."""
    if isinstance(a, float) and isinstance(b, (float, int)) or isinstance(b, float) and isinstance(a, (float, int)):
        if a != a and b != b:
            return True
        if a == b:
            return True
        # 8-byte energies beyond 2^53 raw counts: float(n)/100 and n/100 may differ in the last place
        if abs(a - b) <= 1e-15 * max(abs(a), abs(b)) * 4:
            return True
        return False
    return type(a) == type(b) and a == b or (a is None and b is None) or \
        (isinstance(a, (int, bool)) and isinstance(b, (int, bool)) and a == b)


def group_matches(obj, ref: dict) -> list[str]:
    """Compare an EcoModeV1/Schedule object returned by goodwe with the reference field dict."""
    bad = []
    for k, v in ref.items():
        if k == '_either':
            continue
        if k == 'schedule_type':
            got = getattr(obj, 'schedule_type', None)
            if got is not None and int(got) != v:
                bad.append(f'schedule_type {int(got)} != {v}')
            continue
        if k == 'days':
            if v is not None and obj.days != v:
                bad.append(f'days {obj.days!r} != {v!r}')
            continue
        if k == 'months':
            if v is not None and obj.months != v[1]:
                bad.append(f'months {obj.months!r} != {v[1]!r}')
            continue
        if getattr(obj, k) != v:
            bad.append(f'{k} {getattr(obj, k)!r} != {v!r}')
    return bad


# ------------------------------------------------------------------ reference encoders (C17)

def encode(sensor, value, prior: bytes | None = None):
    """Reference register encoding of `value` for a setting of this type (None: type defines no encoding)."""
    t = type(sensor).__name__
    if t in ('Voltage', 'Current'):
        return struct.pack('>H', round(value * 10))
    if t == 'CurrentS':
        return struct.pack('>h', round(value * 10))
    if t == 'Integer':
        return struct.pack('>H', int(value))
    if t == 'IntegerS':
        return struct.pack('>h', int(value))
    if t == 'Long':
        return struct.pack('>I', int(value))
    if t == 'LongS':
        return struct.pack('>i', int(value))
    if t == 'Decimal':
        return struct.pack('>h', round(value * sensor.scale))
    if t == 'ByteH':
        return struct.pack('>b', int(value)) + prior[1:2]
    if t == 'ByteL':
        return prior[0:1] + struct.pack('>b', int(value))
    if t == 'Timestamp':
        return bytes([value.year - 2000, value.month, value.day, value.hour, value.minute, value.second])
    if t in ('EcoModeV1', 'Schedule', 'EcoModeV2', 'PeakShavingMode'):
        return bytes(value)
    return None
