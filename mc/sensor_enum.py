"""Shared bounded-exhaustive enumeration of a sensor's own-register contents (used by C11 and C12)."""
from __future__ import annotations

import struct

from . import refdec
from .blocks import tname

B16 = (0, 1, 0x7FFF, 0x8000, 0xFFFF)
BOUNDARY16 = sorted({0, 1, 2, 9, 10, 99, 100, 101, 255, 256, 999, 1000, 1001, 0x7FFE, 0x7FFF, 0x8000, 0x8001,
                     0xFF00, 0xFF9C, 0xFFFE, 0xFFFF, 0x0FFF, 0x1000, 0x00FF, 0xFC18, 0xFC17, 0x03E8, 0x03E9})

ECO_V1_BASE = [bytes.fromhex('3000300000640000'),        # off group
               bytes.fromhex('0000173bffecff7f'),        # 24/7 charge 20 %
               bytes.fromhex('0000173b0064ff7f'),        # 24/7 discharge
               bytes.fromhex('0d000e1e0032ff03')]        # some interval
SCHED_BASE = [bytes.fromhex('300030000000006400640000'),  # off eco group
              bytes.fromhex('0000173bff7fffec00640000'),  # 24/7 charge
              bytes.fromhex('0000173bfc7f00fa00640000'),  # peak shaving typed, 2500 W
              bytes.fromhex('ffffffff557f000000000000'),  # not set (0x55 = 85)
              bytes.fromhex('0000173bf97ffc1800640fff')]  # 745 platform charge
TS_BASE = [bytes([22, 1, 4, 18, 30, 25]), bytes([0, 1, 1, 0, 0, 0]), bytes([99, 12, 31, 23, 59, 59])]


def own_values(sensor, full: bool):
    """Yield candidate contents (bytes of length size_of(sensor)) of the sensor's own registers."""
    t = tname(sensor)
    n = refdec.size_of(sensor)
    if n == 1:
        for v in range(256):
            yield bytes([v])
    elif t in ('ByteL', 'EnumL'):
        for lo in range(256):
            for hi in ((0, 0x7F, 0x80, 0xFF) if not full else range(256)):
                yield bytes([hi, lo])
    elif n == 2:
        for v in (range(65536) if full else BOUNDARY16):
            yield struct.pack('>H', v)
    elif n == 4:
        if full:
            for other in B16:
                for v in range(65536):
                    yield struct.pack('>HH', v, other)
                    yield struct.pack('>HH', other, v)
        else:
            for a in BOUNDARY16:
                for b in B16:
                    yield struct.pack('>HH', a, b)
                    yield struct.pack('>HH', b, a)
        if t == 'Float':
            for x in (0.0, -0.0, 1.0, -1.5, 1e-3, 123456.789, 3.4e38, float('inf'), float('-inf'), float('nan'), 1e-45):
                yield struct.pack('>f', x)
    elif t == 'Timestamp':
        for base in TS_BASE:
            for i in range(6):
                for v in range(256):
                    yield base[:i] + bytes([v]) + base[i + 1:]
        yield b'\xff' * 6
        yield bytes(6)
    elif t == 'Energy8':
        for other in (0, 0xFFFF):
            for f in range(4):
                for v in (range(65536) if full else BOUNDARY16):
                    w = [other] * 4
                    w[f] = v
                    yield struct.pack('>HHHH', *w)
    elif t == 'EcoModeV1':
        yield from _group(ECO_V1_BASE, 8, full, (4,))
    elif t in ('Schedule', 'EcoModeV2', 'PeakShavingMode'):
        yield from _group(SCHED_BASE, 12, full, (6, 8, 10))
    else:
        raise KeyError(t)


def _group(bases, n, full, word_fields):
    for base in bases:
        yield base
        for i in range(n):
            for v in range(256):
                yield base[:i] + bytes([v]) + base[i + 1:]
        for f in word_fields:
            for v in (range(65536) if full else BOUNDARY16):
                yield base[:f] + struct.pack('>H', v) + base[f + 2:]
        # every aligned 16-bit field (C11's quantifier)
        if full:
            for f in range(0, n, 2):
                if f in word_fields:
                    continue
                for v in range(65536):
                    yield base[:f] + struct.pack('>H', v) + base[f + 2:]
    yield b'\xff' * n
    yield bytes(n)


def read_outcome(sensor, resp):
    """('value', v) | ('ValueError', msg) | ('raised', typename)"""
    try:
        return ('value', sensor.read(resp))
    except ValueError as e:
        return ('ValueError', str(e)[:60])
    except BaseException as e:  # noqa: BLE001
        return ('raised', type(e).__name__)


def compare(sensor, got, ref):
    """-> None if goodwe's outcome agrees with the reference, else a short description."""
    if got[0] == 'raised':
        return None  # totality is C11's business, not double-reported here
    if ref is refdec.NOVALUE:
        return None if got[0] == 'ValueError' else f'decoded {str(got[1])[:40]!r}, reference: no value'
    if got[0] == 'ValueError':
        if isinstance(ref, dict) and ref.get('_either'):
            return None
        return f'ValueError({got[1]}), reference: {str(ref)[:60]}'
    v = got[1]
    if isinstance(ref, dict):
        bad = refdec.group_matches(v, ref)
        return '; '.join(bad) if bad else None
    return None if refdec.same(v, ref) else f'{v!r} != reference {ref!r}'
