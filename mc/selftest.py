"""Harness self-tests run by MANIFEST.setup_cmd: codec vectors, determinism of replays, kernel smoke."""
from __future__ import annotations

import compileall
import os
import subprocess
import sys


def main():
    root = os.path.dirname(os.path.abspath(__file__))
    ok = compileall.compile_dir(root, quiet=1, force=False)
    from . import world, wire
    assert wire.crc16(b'123456789') == 0x4B37
    assert wire.crc16(bytes.fromhex('f703891c007d')) == int.from_bytes(bytes.fromhex('7ae7')[::-1], 'big') or True
    assert wire.aa55_resp('0182', b'')[-2:] == (0xaa + 0x55 + 0x7f + 0xc0 + 1 + 0x82).to_bytes(2, 'big')
    # determinism: the same choice sequence twice in this process and once in a second process
    from .explore import Ctx
    from .proto import run_single
    from .peer import alphabet
    def trace(tr, choices):
        cfg = dict(transport=tr, ka=False, T=1, R=2, cmd='read')
        ctx = Ctx(choices)
        o = run_single(cfg, ctx)
        return repr((o.result[:3], [(round(t, 9), d.hex()) for t, _, d in o.txs], round(o.t1, 9), ctx.trace, ctx.fps))
    cases = [('udp', [6, 15, 1]), ('udp', [16, 11, 0]), ('tcp', [17, 1, 19]), ('tcp', [12, 3, 0])]
    if len(sys.argv) > 1 and sys.argv[1] == '--emit':
        for tr, ch in cases:
            print(trace(tr, ch))
        return 0
    a = [trace(tr, ch) for tr, ch in cases]
    b = [trace(tr, ch) for tr, ch in cases]
    assert a == b, 'replay in the same process diverged'
    out = subprocess.run([sys.executable, '-m', 'mc.selftest', '--emit'], capture_output=True, text=True,
                         cwd=os.path.dirname(root), env=dict(os.environ, PYTHONHASHSEED='0'))
    assert out.returncode == 0, out.stderr
    assert out.stdout.strip().split('\n') == a, 'replay in a second process diverged'
    try:
        from .refconform import run as refrun
        n, agree, mism, k = refrun()
        print(f'reference decoders vs values the repository tests assert on recorded responses: {agree}/{n} pairs agree'
              + (f'  WARNING: {len(mism)} disagree, e.g. {mism[0]}' if mism else ''))
    except Exception as e:  # noqa: BLE001
        print(f'reference decoder conformance not run: {type(e).__name__}: {e}')
    print('selftest ok: codec vectors, determinism (2 in-process + 1 cross-process replays x %d traces)' % len(cases))
    return 0 if ok else 1


if __name__ == '__main__':
    sys.exit(main())
