"""Reference models of the inverters: a register file speaking the wire protocols through mc/wire.py.

Deliberately boring: a dict (registers), a list (write log), a list (request log).  A request that the strict
parser rejects is not answered (a real inverter stays silent) and is recorded in `bad`.
"""
from __future__ import annotations

import struct

from . import wire

D0 = 0.001


def default_fill(a: int) -> int:
    return (a * 40503 + 12345) & 0xFFFF


class RegisterFile:
    def __init__(self, fill=default_fill):
        self.regs = {}
        self.fill = fill

    def get(self, a):
        v = self.regs.get(a)
        return self.fill(a) & 0xFFFF if v is None else v

    def set(self, a, v):
        self.regs[a] = v & 0xFFFF

    def getbytes(self, a, n):
        return b''.join(struct.pack('>H', self.get(a + i)) for i in range(n))

    def setbytes(self, a, b):
        assert len(b) % 2 == 0
        for i in range(0, len(b), 2):
            self.regs[a + i // 2] = (b[i] << 8) | b[i + 1]

    def snapshot(self, addrs):
        return {a: self.get(a) for a in addrs}


class ModbusDevice:
    """Modbus inverter (ET / DT families): answers RTU-in-AA55-envelope on UDP, MBAP on TCP."""

    def __init__(self, unit=0xF7, fill=default_fill, latency=D0):
        self.rf = RegisterFile(fill)
        self.unit = unit
        self.refused = []      # [(lo, hi)] address ranges answered with exception 2
        self.refuse_code = 2
        self.log = []          # parsed requests, in order
        self.writes = []       # (fn, start, data bytes)
        self.bad = []          # unparsable requests
        self.latency = latency
        self.delay_fn = None   # optional: (device, request) -> delay
        self.silent = False
        self.fragment_at = None
        self.drop_at = set()
        self.mbap_length = 'correct'
        self.refuse_connect_at = set()
        self.reject_at = {}    # request index -> Modbus exception code answered instead of executing the request
        self.head_only_at = {}  # request index -> number of bytes of the answer that arrive (the rest is lost)
        self.kern = None
        self.connects = []
        self.sent = []

    # register helpers
    def is_refused(self, start, n):
        if (start, n) in getattr(self, 'refused_requests', ()):
            return True       # this inverter refuses exactly this block read (whatever it does with other reads of the range)
        if getattr(self, 'refuse_mode', 'touch') == 'cover':
            # another kind of inverter: it refuses the BLOCK reads that span an optional range it does not serve as a block,
            # short reads inside the range are answered (e.g. a firmware limit on what one request may span)
            return any(start <= lo and hi <= start + n - 1 for lo, hi in self.refused)
        return any(lo <= a <= hi for a in range(start, start + n) for lo, hi in self.refused)

    def on_connect(self):
        k = len(self.connects)
        self.connects.append(self.kern.now)
        if k in self.refuse_connect_at:
            return 'refused', D0          # transient connect failure (fault injection by connect index)
        return 'ok', D0

    def pdu(self, rq):
        """Function semantics -> response PDU (after the unit byte)."""
        fn = rq['fn']
        if fn == 3:
            c = rq['count']
            if c < 1 or c > 125:
                return bytes([0x83, 3])
            if self.is_refused(rq['reg'], c):
                return bytes([0x83, self.refuse_code])
            return bytes([3, 2 * c]) + self.rf.getbytes(rq['reg'], c)
        if fn == 6:
            if self.is_refused(rq['reg'], 1):
                return bytes([0x86, self.refuse_code])
            stored = rq['value']
            if getattr(self, 'stores_instead', None) is not None:
                # an inverter that does not take the value as sent (clamps it to its own limits) and says so: the
                # acknowledgement echoes what it stored
                stored = self.stores_instead(rq['reg'], rq['value']) & 0xFFFF
            self.rf.set(rq['reg'], stored)
            self.writes.append((6, rq['reg'], bytes(rq['data'])))
            return bytes([6]) + struct.pack('>HH', rq['reg'], stored)
        if fn == 16:
            if self.is_refused(rq['reg'], rq['count']):
                return bytes([0x90, self.refuse_code])
            self.rf.setbytes(rq['reg'], rq['data'])
            self.writes.append((16, rq['reg'], bytes(rq['data'])))
            return bytes([16]) + struct.pack('>HH', rq['reg'], rq['count'])
        return bytes([fn | 0x80, 1])

    def on_send(self, sock, data):
        now = self.kern.now
        self.sent.append((now, sock.fd, data))
        try:
            rq = wire.parse_tcp_request(data) if sock.kind == 'tcp' else wire.parse_rtu_request(data)
        except wire.BadRequest as e:
            self.bad.append((data, str(e)))
            return
        self.log.append(rq)
        if rq['unit'] != self.unit or self.silent:
            return
        if len(self.log) - 1 in self.drop_at:
            return                      # transient loss of exactly this request (fault injection by request index)
        code = self.reject_at.get(len(self.log) - 1)
        pdu = bytes([rq['fn'] | 0x80, code]) if code else self.pdu(rq)
        if sock.kind == 'tcp':
            f = wire.mbap(struct.pack('>H', rq['tx']), rq['unit'], pdu)
            if self.mbap_length != 'correct':
                # GoodWe firmware is known to fill the MBAP length field unreliably (the library ignores it on purpose)
                ln = {'bytecount': max(len(pdu) - 2, 0), 'zero': 0, 'echo6': 6, 'plus7': len(pdu) + 8}[self.mbap_length]
                f = f[:4] + struct.pack('>H', ln) + f[6:]
        else:
            f = wire.rtu_frame(rq['unit'], pdu)
        dt = self.delay_fn(self, rq) if self.delay_fn else self.latency
        keep = self.head_only_at.get(len(self.log) - 1)
        if keep is not None:
            self.kern.at(now + dt, sock, ('data', f[:keep]))
            return
        p = self.fragment_at
        if p and len(f) > p + 1 and rq['fn'] == 3 and pdu[0] == 3:
            # the answer arrives in two pieces (first one carries the header up to its length field)
            self.kern.at(now + dt, sock, ('data', f[:p]))
            self.kern.at(now + dt + self.latency, sock, ('data', f[p:]))
        else:
            self.kern.at(now + dt, sock, ('data', f))

    def write_functions_seen(self):
        return [r for r in self.log if r['fn'] != 3]


def et_device_info(dev: ModbusDevice, serial=b'9010KETU000W0000', rated=10000, model=b'GW10K-ET  ',
                   firmware=b'04029-06-S11', arm=b'02041-19-S00', dsp1=6, dsp2=6, arm_version=19):
    b = bytearray(66)
    struct.pack_into('>HHH', b, 0, 1, rated, 1)
    b[6:22] = serial.ljust(16)[:16]
    b[22:32] = model.ljust(10)[:10]
    struct.pack_into('>HHHHH', b, 32, dsp1, dsp2, 152, arm_version, 192)
    b[42:54] = firmware.ljust(12)[:12]
    b[54:66] = arm.ljust(12)[:12]
    dev.rf.setbytes(35000, bytes(b))


def dt_device_info(dev: ModbusDevice, serial=b'9010KDTU000W0000', model=b'GW10K-DT  '):
    b = bytearray(80)
    b[6:22] = serial.ljust(16)[:16]
    b[22:32] = model.ljust(10)[:10]
    struct.pack_into('>HHHHH', b, 66, 12, 12, 13, 100, 200)
    dev.rf.setbytes(30001, bytes(b))


ET_OPTIONAL = {
    'battery': [(37000, 37023)],
    'battery2': [(39000, 39021)],
    'meter_ext': [(36045, 36057)],
    'meter_ext2': [(36058, 36124)],
    'mppt': [(35301, 35361)],
    'eco_v2': [(47545, 47588)],
    'peak_shaving': [(47589, 47612), (47542, 47544)],
}
DT_OPTIONAL = {'meter': [(30195, 30209)], 'meter_version': [(30063, 30082)]}


class EsDevice:
    """ES family (platform 105): AA55 commands plus Modbus RTU requests on the same UDP socket."""

    ACK = {b'\x03\x26': b'\x03\xb6', b'\x03\x27': b'\x03\xb7'}   # where the library expects something else than cmd|0x80

    def __init__(self, firmware=b'1414E', model=b'GW5048D-ES', serial=b'95048ESU000W0000', arm=b'02041-14-S00',
                 unit=0xF7, fill=lambda a: 0, latency=D0):
        info = bytearray(77)
        info[0:5] = firmware.ljust(5)[:5]
        info[5:15] = model.ljust(10)[:10]
        info[31:47] = serial.ljust(16)[:16]
        info[51:63] = arm.ljust(12)[:12]
        self.info = bytes(info)
        self.runtime = bytearray(142)
        self.settings = bytearray(86)
        self.rf = RegisterFile(fill)
        self.unit = unit
        self.log = []
        self.writes = []
        self.bad = []
        self.refused = []
        self.latency = latency
        self.delay_fn = None
        self.kern = None
        self.sent = []
        self.silent = False

    def on_connect(self):
        return 'ok', D0

    def _reply(self, sock, f, rq):
        dt = self.delay_fn(self, rq) if self.delay_fn else self.latency
        self.kern.at(self.kern.now + dt, sock, ('data', f))

    def _setbytes(self, reg, b):
        self.rf.setbytes(reg, b)
        if reg == 0x560:
            self.settings[32:34] = b[0:2]      # on-grid DoD field of the settings blob

    def on_send(self, sock, data):
        self.sent.append((self.kern.now, sock.fd, data))
        if data[:2] == b'\xaa\x55':
            try:
                rq = wire.parse_aa55_request(data)
            except wire.BadRequest as e:
                self.bad.append((data, str(e)))
                return
            cmd, pl = rq['cmd'], rq['payload']
            self.log.append(dict(framing='aa55', cmd=cmd.hex(), payload=pl.hex(), fn=('read' if cmd[0] == 1 else 'write')))
            if self.silent:
                return
            if getattr(self, 'lossy', False) and len(self.log) % 2 == 1:
                return          # a link that loses every other datagram (the first transmission of each request, then its retry arrives)
            rt = self.ACK.get(cmd, bytes([cmd[0], cmd[1] | 0x80]))
            if cmd == b'\x01\x02':
                return self._reply(sock, wire.aa55_resp(rt, self.info), rq)
            if cmd == b'\x01\x06':
                return self._reply(sock, wire.aa55_resp(rt, bytes(self.runtime)), rq)
            if cmd == b'\x01\x09':
                return self._reply(sock, wire.aa55_resp(rt, bytes(self.settings)), rq)
            if cmd == b'\x01\x1a':
                if len(pl) != 3:
                    self.bad.append((data, 'aa55 read: payload'))
                    return
                off, cnt = struct.unpack('>HB', pl)
                return self._reply(sock, wire.aa55_resp(rt, self.rf.getbytes(off, cnt)), rq)
            if cmd == b'\x02\x39':
                if len(pl) < 5:
                    self.bad.append((data, 'aa55 write: payload'))
                    return
                reg = struct.unpack('>H', pl[0:2])[0]
                n = pl[2]
                vals = pl[3:]
                if len(pl) == 5 and n == 1:
                    vals = pl[3:5]
                    self._setbytes(reg, vals)
                    self.writes.append(('aa55-w1', reg, bytes(vals)))
                else:
                    if n != len(vals) or n % 2:
                        self.bad.append((data, 'aa55 write-multi: length'))
                        return
                    self._setbytes(reg, vals)
                    self.writes.append(('aa55-wm', reg, bytes(vals)))
                return self._reply(sock, wire.aa55_resp(rt, b'\x06'), rq)
            if cmd[0] == 3:
                self.writes.append(('aa55-cmd', cmd.hex(), bytes(pl)))
                if cmd[1] == 0x59 and len(pl) == 1:
                    self.settings[66:68] = b'\x00' + pl[0:1]      # work mode field
                if cmd[1] == 0x35 and len(pl) == 2:
                    self.settings[52:54] = pl[0:2]                # export limit field
                return self._reply(sock, wire.aa55_resp(rt, b'\x06'), rq)
            return
        try:
            rq = wire.parse_rtu_request(data)
        except wire.BadRequest as e:
            self.bad.append((data, str(e)))
            return
        self.log.append(rq)
        if self.silent or rq['unit'] != self.unit:
            return
        fn = rq['fn']

        def refused(s, n):
            return any(lo <= a <= hi for a in range(s, s + n) for lo, hi in self.refused)
        if fn == 3:
            pdu = bytes([0x83, 2]) if refused(rq['reg'], rq['count']) else \
                bytes([3, 2 * rq['count']]) + self.rf.getbytes(rq['reg'], rq['count'])
        elif fn == 6:
            self._setbytes(rq['reg'], rq['data'])
            self.writes.append((6, rq['reg'], bytes(rq['data'])))
            pdu = bytes([6]) + struct.pack('>HH', rq['reg'], rq['value'])
        else:
            self._setbytes(rq['reg'], rq['data'])
            self.writes.append((16, rq['reg'], bytes(rq['data'])))
            pdu = bytes([16]) + struct.pack('>HH', rq['reg'], rq['count'])
        self._reply(sock, wire.rtu_frame(rq['unit'], pdu), rq)

    def write_functions_seen(self):
        return [r for r in self.log if r.get('fn') not in (3, 'read')]


class Rig:
    """An inverter object wired to a device model on a KLoop."""

    def __init__(self, family, dev, transport='udp', T=1, R=0, ka=False, ctx=None, world=None, keep_world=False, comm_addr=0):
        from . import world as W
        from .kernel import KLoop
        if not keep_world:      # keep_world: a further object in the same process state (neighbours, pairs)
            W.reset()
        self.dev = dev
        self.loop = KLoop(dev, ctx=ctx)
        port = 502 if transport == 'tcp' else 8899
        self.inv = W.FAMILIES[family]('10.0.0.2', port, comm_addr, T, R)
        self.inv.set_keep_alive(ka)

    def newloop(self):
        """What successive asyncio.run() calls do to a long-lived inverter object: the loop of the previous call is shut
        down and closed, the next call runs on a new one (same kernel model, same device)."""
        from .kernel import KLoop
        self.loop.shutdown_like_asyncio_run()
        self.loop = KLoop(kern=self.loop.kern)

    def call(self, fn, *a, **kw):
        async def w():
            try:
                return ('ok', await fn(*a, **kw))
            except BaseException as e:  # noqa: BLE001
                return ('exc', type(e).__name__, str(getattr(e, 'message', '') or e)[:80])
        self.loop.kern.ntx = 0
        self.loop.kern.tx_cap = 4000
        st, res = self.loop.run(w())
        if st == 'hang':
            return ('hang', res)
        return res
