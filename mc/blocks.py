"""Register blocks: building real ProtocolResponse objects around harness-chosen register contents."""
from __future__ import annotations

import struct

from . import world, wire, refdec

gp = world.gp
Calc = ('Calculated', 'EnumCalculated')


def tname(s):
    return type(s).__name__


def own_span(s):
    """(first byte address unit, size in bytes) of the sensor's own registers; None for derived sensors."""
    n = refdec.size_of(s)
    if tname(s) in Calc or tname(s) == 'EnumBitmap22' or n == 0:
        return None
    return n


class Table:
    """A sensor table together with the block of registers a response for it carries."""

    def __init__(self, family, name, sensors, mode, start=None, length=None):
        self.family, self.name, self.sensors, self.mode = family, name, tuple(sensors), mode
        offs = [s.offset for s in sensors if own_span(s)]
        if tname(sensors[0]) and any(tname(s) == 'EnumBitmap22' for s in sensors):
            offs += [s._offsetL for s in sensors if tname(s) == 'EnumBitmap22']
        if mode == 'modbus':
            self.start = min(offs) if start is None else start
            end = max(s.offset + (refdec.size_of(s) + 1) // 2 for s in sensors if own_span(s))
            self.nbytes = 2 * (end - self.start) if length is None else length
        else:
            self.start = 0
            self.nbytes = max(s.offset + refdec.size_of(s) for s in sensors if own_span(s)) if length is None else length

    def byte_pos(self, s, offset=None):
        o = s.offset if offset is None else offset
        return (o - self.start) * 2 if self.mode == 'modbus' else o

    def response(self, payload: bytes, transport='rtu'):
        """A real ProtocolResponse carrying `payload` as the answer to the real read command for this block."""
        if self.mode == 'modbus':
            n = len(payload) // 2
            if transport.startswith('tcp'):
                cmd = gp.ModbusTcpReadCommand(0xF7, self.start, n)
                raw = wire.tcp_read_resp(b'\x00\x01', 0xF7, payload)
                if transport != 'tcp':
                    # the MBAP length field is unreliable on GoodWe devices and ignored by the library: byte count only / 0
                    ln = len(payload) if transport == 'tcp-len=bytecount' else 0
                    raw = raw[:4] + struct.pack('>H', ln) + raw[6:]
            else:
                cmd = gp.ModbusRtuReadCommand(0xF7, self.start, n)
                raw = wire.rtu_read_resp(0xF7, payload)
        else:
            cmd = gp.Aa55ProtocolCommand("010600", "0186")
            raw = wire.aa55_resp('0186', payload)
        return gp.ProtocolResponse(raw, cmd)


def poke(resp, pos: int, b: bytes):
    """Overwrite bytes of the response's payload in place (BytesIO public API)."""
    resp._bytes.seek(pos)
    resp._bytes.write(b)


def all_tables():
    out = []
    for fam, cls in world.FAMILIES.items():
        for name, sensors in world.tables(cls).items():
            if fam == 'ES':
                mode = 'aa55' if name in ('sensors', 'all_settings') else 'modbus'
                if name == 'all_settings':
                    # blob part (offset < 1000) and register addressed part
                    blob = [s for s in sensors if s.offset < 1000]
                    regs = [s for s in sensors if s.offset >= 1000]
                    out.append(Table(fam, name + ':blob', blob, 'aa55'))
                    out.append(Table(fam, name + ':regs', regs, 'modbus'))
                    continue
            else:
                mode = 'modbus'
            out.append(Table(fam, name, sensors, mode))
    return out


def context(nbytes: int, seed: int, variant: int = 0) -> bytearray:
    """Seed-selected surrounding block contents (only the embedding depends on the seed)."""
    x = (seed * 2654435761 + variant * 40503 + 12345) & 0xFFFFFFFF
    out = bytearray(nbytes)
    for i in range(nbytes):
        x = (x * 1103515245 + 12345) & 0x7FFFFFFF
        out[i] = (x >> 16) & 0xFF
    return out
