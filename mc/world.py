"""Import goodwe from the tree under test and keep its process-global mutable state under control.

GOODWE_SRC (default /repo) is put first on sys.path, so every run sees the current working tree.
"""
from __future__ import annotations

import logging
import os
import sys

SRC = os.environ.get("GOODWE_SRC", "/repo")
sys.dont_write_bytecode = True
if sys.path[0] != SRC:
    sys.path.insert(0, SRC)
# Logging is part of the environment: the library is explored with its debug logging ENABLED (records are thrown away by
# a null handler), so that lazily formatted arguments and `isEnabledFor(DEBUG)` branches run; selected stages are repeated
# with logging at its default level (set_debug_logging(False)).
_LOG = logging.getLogger('goodwe')
_LOG.addHandler(logging.NullHandler())
_LOG.propagate = False
for _n in ('asyncio',):
    logging.getLogger(_n).addHandler(logging.NullHandler())
    logging.getLogger(_n).propagate = False


def set_debug_logging(on: bool) -> None:
    _LOG.setLevel(logging.DEBUG if on else logging.WARNING)


set_debug_logging(os.environ.get('MC_DEBUG_LOGGING', '1') != '0')

import goodwe  # noqa: E402
import goodwe.protocol as gp  # noqa: E402
import goodwe.sensor as gs  # noqa: E402
from goodwe.inverter import Sensor  # noqa: E402

assert os.path.realpath(goodwe.__file__).startswith(os.path.realpath(SRC)), (goodwe.__file__, SRC)

FAMILIES = {"ET": goodwe.ET, "ES": goodwe.ES, "DT": goodwe.DT}


def _walk_sensors():
    """Every Sensor instance reachable from class-level tuples of the three family classes."""
    seen = {}
    for cls in FAMILIES.values():
        for name, val in vars(cls).items():
            if isinstance(val, tuple):
                for s in val:
                    if isinstance(s, Sensor):
                        seen[id(s)] = s
    return list(seen.values())


_SENSORS = _walk_sensors()
_SNAP = [(s, dict(vars(s))) for s in _SENSORS]
_TX0 = getattr(gp, '_modbus_tcp_tx', None)     # private: its absence must not stop the harness


def _generic_snapshot():
    """Every module-level and class-level attribute of the goodwe package as it was at import time.

    State that leaks from one explored execution into the next would hide exactly the defects that need a second
    object or an earlier call to show (a class-level cache filled by the solo run makes the interleaved run look the
    same), and would make replays irreproducible.  Mutable containers are restored IN PLACE (references held elsewhere
    stay valid), scalars are re-bound, attributes that did not exist are deleted, functools caches are cleared."""
    import types
    mods = [m for n, m in sys.modules.items() if (n == 'goodwe' or n.startswith('goodwe.')) and m is not None]
    owners = list(mods)
    for m in mods:
        for v in list(vars(m).values()):
            if isinstance(v, type) and getattr(v, '__module__', '').startswith('goodwe') and v not in owners:
                owners.append(v)
    snap = []
    for o in owners:
        names = {}
        for k, v in list(vars(o).items()):
            if k.startswith('__') and k.endswith('__'):
                continue
            if isinstance(v, (dict, list, set, bytearray)):
                names[k] = ('c', v, type(v)(v))
            elif isinstance(v, (int, float, str, bytes, bool, type(None), tuple, frozenset)):
                names[k] = ('s', v, None)
            else:
                names[k] = ('o', v, None)
        snap.append((o, names))
    return snap


_GEN = _generic_snapshot()


def _generic_restore():
    for o, names in _GEN:
        cur = vars(o)
        if len(cur) != len(names) + sum(1 for k in cur if k.startswith('__') and k.endswith('__')):
            for k in [k for k in cur if k not in names and not (k.startswith('__') and k.endswith('__'))]:
                try:
                    delattr(o, k)
                except (AttributeError, TypeError):
                    pass
        for k, (kind, v, copy_) in names.items():
            now = cur.get(k, _MISSING)
            if kind == 'c':
                if now is not v:
                    try:
                        setattr(o, k, v)
                    except (AttributeError, TypeError):
                        pass
                if len(v) != len(copy_) or (len(v) <= 64 and v != copy_):
                    if isinstance(v, dict):
                        v.clear()
                        v.update(copy_)
                    elif isinstance(v, set):
                        v.clear()
                        v.update(copy_)
                    else:
                        v[:] = copy_
            elif now is not v:
                try:
                    setattr(o, k, v)
                except (AttributeError, TypeError):
                    pass
            if kind == 'o' and hasattr(v, 'cache_clear'):
                v.cache_clear()


_MISSING = object()


def reset(tx: int | None = None) -> None:
    """Restore module/class level mutable state to its import-time snapshot."""
    _generic_restore()
    if _TX0 is not None:
        gp._modbus_tcp_tx = _TX0 if tx is None else tx
    for s, d in _SNAP:
        cur = vars(s)
        if cur != d:
            cur.clear()
            cur.update(d)


def tables(cls) -> dict:
    """name -> tuple of Sensor, for every class-level sensor table of a family class."""
    out = {}
    for name, val in vars(cls).items():
        if isinstance(val, tuple) and val and all(isinstance(s, Sensor) for s in val):
            out[name.split("__")[-1]] = val
    return out


def seed() -> int:
    try:
        return int(os.environ.get("VERIF_SEED", "0"))
    except ValueError:
        return 0


class Listed(list):
    """What inv.sensors() / inv.settings() returned; `.error` is set (and the list empty) if the call raised."""
    error = None


def listed(inv, what='sensors'):
    """inv.sensors() must never raise; a check that only wants the list goes on with an empty one and reports .error."""
    out = Listed()
    try:
        out.extend(getattr(inv, what)())
    except BaseException as e:  # noqa: BLE001
        out.error = f'{what}() raised {type(e).__name__}: {e}'
    return out



def wrap_method(cls, name, observe):
    """Put an observer in front of cls.<name> whatever kind of method it is (static, class or instance method, any
    signature): observe(*args_without_self_or_cls, **kw) is called first, then the original.  -> restore()"""
    raw = cls.__dict__[name]
    if isinstance(raw, staticmethod):
        f = raw.__func__

        def w(*a, **kw):
            observe(*a, **kw)
            return f(*a, **kw)
        new = staticmethod(w)
    elif isinstance(raw, classmethod):
        f = raw.__func__

        def w(c, *a, **kw):
            observe(*a, **kw)
            return f(c, *a, **kw)
        new = classmethod(w)
    else:
        f = raw

        def w(self_, *a, **kw):
            observe(*a, **kw)
            return f(self_, *a, **kw)
        new = w
    w.__name__ = getattr(f, '__name__', name)
    w.__qualname__ = getattr(f, '__qualname__', name)
    setattr(cls, name, new)
    return lambda: setattr(cls, name, raw)
