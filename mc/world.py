"""Import goodwe from the tree under test and keep its process-global mutable state under control.

GOODWE_SRC (default /repo) is put first on sys.path, so every run sees the current working tree.
"""
from __future__ import annotations

import logging
import os
import sys

SRC = os.environ.get("GOODWE_SRC", "/repo")
sys.dont_write_bytecode = True
if sys.path[0] != SRC:
    sys.path.insert(0, SRC)
logging.disable(logging.CRITICAL)

import goodwe  # noqa: E402
import goodwe.protocol as gp  # noqa: E402
import goodwe.sensor as gs  # noqa: E402
from goodwe.inverter import Sensor  # noqa: E402

assert os.path.realpath(goodwe.__file__).startswith(os.path.realpath(SRC)), (goodwe.__file__, SRC)

FAMILIES = {"ET": goodwe.ET, "ES": goodwe.ES, "DT": goodwe.DT}


def _walk_sensors():
    """Every Sensor instance reachable from class-level tuples of the three family classes."""
    seen = {}
    for cls in FAMILIES.values():
        for name, val in vars(cls).items():
            if isinstance(val, tuple):
                for s in val:
                    if isinstance(s, Sensor):
                        seen[id(s)] = s
    return list(seen.values())


_SENSORS = _walk_sensors()
_SNAP = [(s, dict(vars(s))) for s in _SENSORS]
_TX0 = gp._modbus_tcp_tx


def reset(tx: int | None = None) -> None:
    """Restore module/class level mutable state to its import-time snapshot."""
    gp._modbus_tcp_tx = _TX0 if tx is None else tx
    for s, d in _SNAP:
        cur = vars(s)
        if cur != d:
            cur.clear()
            cur.update(d)


def tables(cls) -> dict:
    """name -> tuple of Sensor, for every class-level sensor table of a family class."""
    out = {}
    for name, val in vars(cls).items():
        if isinstance(val, tuple) and val and all(isinstance(s, Sensor) for s in val):
            out[name.split("__")[-1]] = val
    return out


def seed() -> int:
    try:
        return int(os.environ.get("VERIF_SEED", "0"))
    except ValueError:
        return 0
