"""Evidence writer: the check's own counters, validated against the evidence schema's requirements."""
from __future__ import annotations

import json
import os

from .findings import ROOT, jsonable

LEVELS = ("exploration", "fault_enumeration", "model_checking", "proof", "translation_validation", "other")


def _validate(ev: dict):
    for k in ("property_id", "tier", "seed", "level", "coverage", "wall_s"):
        assert k in ev, f'evidence: missing {k}'
    assert ev["tier"] in ("quick", "thorough")
    assert isinstance(ev["seed"], int)
    assert ev["level"] in LEVELS
    cov = ev["coverage"]
    if ev["level"] in ("exploration", "fault_enumeration"):
        assert isinstance(cov.get("evaluations"), int) and cov["evaluations"] >= 1
        assert isinstance(cov.get("distinct_nontrivial"), int) and cov["distinct_nontrivial"] >= 2
        assert isinstance(cov.get("rule"), str)
        assert isinstance(cov.get("samples"), list) and cov["samples"]
    elif ev["level"] == "model_checking":
        for k in ("states", "transitions", "traces_validated_against_impl"):
            assert isinstance(cov.get(k), int), f'evidence: coverage.{k}'
        assert cov["states"] >= 1 and cov["transitions"] >= 1
        assert isinstance(cov.get("samples"), list) and cov["samples"]


def write(prop: str, tier: str, seed: int, level: str, coverage: dict, wall_s: float, violations: int,
          assumptions=()):
    ev = dict(property_id=prop, tier=tier, seed=int(seed), level=level, coverage=jsonable(coverage),
              assumptions=list(assumptions), wall_s=float(wall_s), violations=int(violations))
    _validate(ev)
    edir = os.environ.get('MC_EVIDENCE_DIR') or os.path.join(ROOT, 'evidence')  # mutation runs write elsewhere
    os.makedirs(edir, exist_ok=True)
    path = os.path.join(edir, f'{prop}.json')
    tmp = path + '.tmp'
    with open(tmp, 'w') as f:
        json.dump(ev, f, indent=1, sort_keys=True)
    os.replace(tmp, path)
    return path
