"""Harness that drives the real protocol objects on Engine K and produces observation records."""
from __future__ import annotations

import asyncio
import gc

from . import world
from .explore import fingerprint
from .kernel import KLoop, Kernel
from .peer import ScriptPeer

gp = world.gp
HOST = '10.0.0.2'


def make_protocol(transport: str, T, R, ka: bool, unit=0xF7, host=None):
    host = host or HOST
    if transport == 'tcp':
        p = gp.TcpInverterProtocol(host, 502, unit, T, R)
    else:
        p = gp.UdpInverterProtocol(host, 8899, unit, T, R)
    p.keep_alive = ka
    return p


def make_command(p, kind: str):
    if kind == 'read':
        return p.read_command(0x891C, 3)
    if kind == 'write':
        return p.write_command(47000, -3)
    if kind == 'multi':
        return p.write_multi_command(47515, bytes.fromhex('0000173bffec ff7f'.replace(' ', '')))
    if kind == 'aa55':
        return gp.Aa55ProtocolCommand("010600", "0186")
    raise ValueError(kind)


def outcome_of(exc_or_resp):
    return exc_or_resp


async def _exec(cmd, p):
    try:
        r = await cmd.execute(p)
        return ('ok', r.raw_data)
    except BaseException as e:  # noqa: BLE001 - the type IS the observation
        return ('exc', type(e).__name__, getattr(e, 'message', None), [c.__name__ for c in type(e).__mro__])


class Obs(dict):
    __getattr__ = dict.get


def observe(loop: KLoop, peer: ScriptPeer, res, t0, t1, log_from=0, sent_from=0):
    kern = loop.kern
    log = kern.log[log_from:]
    gc.collect(1)
    unh = []
    for c in loop.unhandled:
        msg = c.get('message', '')
        unh.append((msg, type(c.get('exception')).__name__ if c.get('exception') is not None else None))
    return Obs(result=res, t0=t0, t1=t1,
               txs=[(t, fd, d) for (t, fd, d, _) in peer.sent[sent_from:]],
               letters=[ltr for (_, _, _, ltr) in peer.sent[sent_from:]],
               connects=list(peer.connects),
               events=[e for e in log if e[0] in ('tx', 'rx', 'connect', 'connected')],
               opens=[e for e in log if e[0] == 'open'], closes=[e for e in log if e[0] == 'close'],
               unhandled=unh, bad_requests=list(peer.bad_requests),
               open_sockets=len(kern.socks))


def run_single(cfg: dict, ctx, letters=None, conn_letters=None, fp=True, prior=()):
    """One request on a protocol object against a ScriptPeer whose answers come from ctx.

    prior: scripts of earlier requests on the same object (non-initial states); they are forced, not explored,
    and the explored request follows at once (answers of the earlier requests may still be in flight)."""
    world.reset(tx=cfg.get('tx_start'))
    peer = ScriptPeer(cfg['transport'], cfg['T'], None, letters, conn_letters)
    peer.default_letter = 'valid'
    if cfg.get('udp_connect'):
        peer.udp_conn_letters = ['ok', 'netunreach']
    loop = KLoop(peer, ctx=ctx)
    p = make_protocol(cfg['transport'], cfg['T'], cfg['R'], cfg['ka'], host=cfg.get('host'))
    if cfg.get('tx_start') is not None and not hasattr(gp, '_modbus_tcp_tx'):
        # the counter is not reachable as a module attribute: walk up to the start state by building frames
        c0 = p.read_command(0, 1)
        for _ in range(70000):
            if int.from_bytes(c0.request_bytes()[:2], 'big') == cfg['tx_start']:
                break
    for sc in prior:
        if sc == 'NEWLOOP':
            # the object lives on, the next request comes from the next asyncio.run(): previous loop shut down and closed
            loop.shutdown_like_asyncio_run()
            loop = KLoop(kern=loop.kern)
            continue
        if isinstance(sc, dict):       # an earlier request with scripted connect outcomes as well
            peer.forced_conn = list(sc['conn'])
            sc = sc['tx']
        peer.forced = list(sc)
        loop.kern.ntx = 0
        loop.run(_exec(make_command(p, cfg.get('cmd', 'read')), p))
    peer.forced = []
    peer.forced_conn = []
    peer.ctx = ctx
    loop.kern.ntx = 0
    kern = loop.kern

    def in_flight():
        return [x for x in kern.q if not callable(x[3])] or any(sk.rx for sk in kern.socks.values())
    if cfg.get('drain'):
        # let what the earlier requests left in flight arrive (and nothing more: no timer is waited for)
        guard = 0
        while in_flight() and guard < 50:
            nxt = min((x[0] for x in kern.q if not callable(x[3])), default=loop.time())
            loop.settle(max(nxt - loop.time(), 0))
            guard += 1
    clean = not in_flight()
    if fp:
        ctx.fp = lambda: fingerprint(loop, (p,))
    cmd = make_command(p, cfg.get('cmd', 'read'))
    t0 = loop.time()
    l0, s0, c0 = len(loop.kern.log), len(peer.sent), len(peer.connects)
    st, res = loop.run(_exec(cmd, p))
    t1 = loop.time()
    if st == 'hang':
        res = ('hang', res)
    loop.settle(0)
    obs = observe(loop, peer, res, t0, t1, l0, s0)
    obs['clean_start'] = clean
    obs['connects'] = peer.connects[c0:]
    obs['served'] = peer.served[s0:]
    obs['valid_for'] = peer.valid_for[s0:]
    obs['transports_open'] = sum(1 for t in loop.kern.transports if not t.is_closing())
    ctx.fp = None
    return obs


class Session:
    """A protocol object (optionally wrapped in an Inverter) living across several requests, loops and faults."""

    def __init__(self, cfg: dict, ctx=None, family=None, peer=None):
        world.reset()
        self.cfg = cfg
        self.peer = peer or ScriptPeer(cfg['transport'], cfg['T'], None)
        self.peer.default_letter = 'valid'
        self.kern = Kernel(self.peer, ctx=ctx)
        self.loop = KLoop(kern=self.kern)
        self.inv = None
        if family is not None:
            port = 502 if cfg['transport'] == 'tcp' else 8899
            self.inv = world.FAMILIES[family](HOST, port, 0, cfg['T'], cfg['R'])
            self.inv.set_keep_alive(cfg['ka'])
            self.p = self.inv._protocol
        else:
            self.p = make_protocol(cfg['transport'], cfg['T'], cfg['R'], cfg['ka'])
        self.history = []

    def _run(self, coro):
        self.kern.ntx = 0
        st, res = self.loop.run(coro)
        if st == 'hang':
            res = ('hang', res)
        return res

    def request(self, script=(), conn=(), kind='read', settle=True, in_cancelled_task=False):
        self.peer.forced = list(script)
        self.peer.forced_conn = list(conn)
        l0, s0, c0 = len(self.kern.log), len(self.peer.sent), len(self.peer.connects)
        u0 = len(self.loop.unhandled)
        t0 = self.loop.time()
        if self.cfg.get('same_command'):
            # the very same command OBJECT is executed again and again (as the inverter classes do with their prepared
            # _READ_RUNNING_DATA / _READ_DEVICE_VERSION_INFO commands)
            if getattr(self, '_cmd', None) is None:
                self._cmd = make_command(self.p, kind)
            _the_cmd = self._cmd
        else:
            _the_cmd = None
        if in_cancelled_task:
            # the request is issued from a task that swallowed a cancellation earlier (a clean-up handler, a poll loop that
            # caught CancelledError): Task.cancelling() is still > 0 there
            import asyncio

            async def w():
                asyncio.current_task().cancel()
                try:
                    await asyncio.sleep(0)
                except asyncio.CancelledError:
                    pass
                return await _exec(_the_cmd or make_command(self.p, kind), self.p)
            res = self._run(w())
        else:
            res = self._run(_exec(_the_cmd or make_command(self.p, kind), self.p))
        t1 = self.loop.time()
        if settle:
            self.loop.settle(0)
        obs = observe(self.loop, self.peer, res, t0, t1, l0, s0)
        obs['connects'] = self.peer.connects[c0:]
        obs['unhandled'] = obs['unhandled'][u0:]
        self.peer.forced = []
        self.peer.forced_conn = []
        return obs

    def request_cancelled(self, script, at, kind='read'):
        """A request whose caller gives up: the task awaiting it is cancelled `at` seconds after it started (what
        task.cancel() / asyncio.wait_for / asyncio.timeout do); the task is then awaited to its end, whatever that is."""
        import asyncio
        self.peer.forced = list(script)
        cmd = make_command(self.p, kind)

        async def w():
            task = asyncio.ensure_future(_exec(cmd, self.p))
            await asyncio.sleep(at)
            task.cancel()
            try:
                return await task
            except asyncio.CancelledError:
                return ('cancelled',)
        res = self._run(w())
        self.loop.settle(0)
        self.peer.forced = []
        return res

    def call(self, coro_fn):
        """Run an arbitrary coroutine (public API call) and classify its outcome."""
        async def w():
            try:
                return ('ok', await coro_fn())
            except BaseException as e:  # noqa: BLE001
                return ('exc', type(e).__name__, getattr(e, 'message', None),
                        [c.__name__ for c in type(e).__mro__], getattr(e, 'consecutive_failures_count', None))
        l0, s0 = len(self.kern.log), len(self.peer.sent)
        u0 = len(self.loop.unhandled)
        t0 = self.loop.time()
        res = self._run(w())
        t1 = self.loop.time()
        self.loop.settle(0)
        obs = observe(self.loop, self.peer, res, t0, t1, l0, s0)
        obs['unhandled'] = obs['unhandled'][u0:]
        return obs

    def close(self):
        async def closing():
            try:
                await self.p.close()
                return ('ok', None)
            except BaseException as e:  # noqa: BLE001 - close() raising is an observation, not a harness failure
                return ('exc', type(e).__name__, str(e)[:80])
        res = self._run(closing())
        self.loop.settle(0)
        return res

    def idle(self, dt):
        self.loop.settle(dt)

    def drain(self):
        """Advance until nothing is in flight on the network any more (the loop's own timers stay armed
        unless they fall due meanwhile)."""
        n = 0
        while self.kern.q and n < 50:
            n += 1
            dt = max(self.kern.q)[0] - self.kern.now
            self.loop.settle(max(dt, 0) + 1e-4)

    def newloop(self):
        """What two successive asyncio.run() calls do to a long-lived inverter object."""
        self.loop.shutdown_like_asyncio_run()
        self.loop = KLoop(kern=self.kern)

    def newloop_open(self):
        """The object is used from ANOTHER event loop while the previous one stays open (two loops in one program, or a
        loop that is simply not closed before the next one is created)."""
        self.parked = getattr(self, 'parked', [])
        self.parked.append(self.loop)
        self.loop = KLoop(kern=self.kern)

    def service_parked(self):
        """A loop that was left open stays open and IDLE: it never runs again (the property speaks about successive
        asyncio.run() calls; a previous loop that goes on running next to the new one is outside it - an earlier version
        that ran the parked loops raised alarms about stale close callbacks of the old loop hitting the new transport)."""
        return None

    def parked_fds(self):
        """Descriptors whose close is queued on an idle parked loop (they are closed as soon as that loop runs or ends)."""
        pk = getattr(self, 'parked', [])
        return {t._sock.fileno() for t in self.kern.transports
                if getattr(t, '_loop', None) in pk and t.is_closing() and getattr(t, '_sock', None) is not None}

    def fp(self, extra=()):
        return fingerprint(self.loop, (self.p,) + ((self.inv,) if self.inv is not None else ()),
                           tuple(extra) + ((len(self.parked),) if getattr(self, 'parked', None) else ()))

    def open_transports(self):
        return [t for t in self.kern.transports if not t.is_closing()]
