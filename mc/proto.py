"""Harness that drives the real protocol objects on Engine K and produces observation records."""
from __future__ import annotations

import asyncio
import gc

from . import world
from .explore import fingerprint
from .kernel import KLoop, Kernel
from .peer import ScriptPeer

gp = world.gp
HOST = '10.0.0.2'


def make_protocol(transport: str, T, R, ka: bool, unit=0xF7):
    if transport == 'tcp':
        p = gp.TcpInverterProtocol(HOST, 502, unit, T, R)
    else:
        p = gp.UdpInverterProtocol(HOST, 8899, unit, T, R)
    p.keep_alive = ka
    return p


def make_command(p, kind: str):
    if kind == 'read':
        return p.read_command(0x891C, 3)
    if kind == 'write':
        return p.write_command(47000, -3)
    if kind == 'multi':
        return p.write_multi_command(47515, bytes.fromhex('0000173bffec ff7f'.replace(' ', '')))
    if kind == 'aa55':
        return gp.Aa55ProtocolCommand("010600", "0186")
    raise ValueError(kind)


def outcome_of(exc_or_resp):
    return exc_or_resp


async def _exec(cmd, p):
    try:
        r = await cmd.execute(p)
        return ('ok', r.raw_data)
    except BaseException as e:  # noqa: BLE001 - the type IS the observation
        return ('exc', type(e).__name__, getattr(e, 'message', None), [c.__name__ for c in type(e).__mro__])


class Obs(dict):
    __getattr__ = dict.get


def observe(loop: KLoop, peer: ScriptPeer, res, t0, t1, log_from=0, sent_from=0):
    kern = loop.kern
    log = kern.log[log_from:]
    gc.collect(1)
    unh = []
    for c in loop.unhandled:
        msg = c.get('message', '')
        unh.append((msg, type(c.get('exception')).__name__ if c.get('exception') is not None else None))
    return Obs(result=res, t0=t0, t1=t1,
               txs=[(t, fd, d) for (t, fd, d, _) in peer.sent[sent_from:]],
               letters=[ltr for (_, _, _, ltr) in peer.sent[sent_from:]],
               connects=list(peer.connects),
               events=[e for e in log if e[0] in ('tx', 'rx', 'connect', 'connected')],
               opens=[e for e in log if e[0] == 'open'], closes=[e for e in log if e[0] == 'close'],
               unhandled=unh, bad_requests=list(peer.bad_requests),
               open_sockets=len(kern.socks))


def run_single(cfg: dict, ctx, letters=None, conn_letters=None, fp=True):
    """One request on a fresh protocol object against a ScriptPeer whose answers come from ctx."""
    world.reset()
    peer = ScriptPeer(cfg['transport'], cfg['T'], ctx, letters, conn_letters)
    loop = KLoop(peer, ctx=ctx)
    p = make_protocol(cfg['transport'], cfg['T'], cfg['R'], cfg['ka'])
    if fp:
        ctx.fp = lambda: fingerprint(loop, (p,))
    cmd = make_command(p, cfg.get('cmd', 'read'))
    st, res = loop.run(_exec(cmd, p))
    t1 = loop.time()
    if st == 'hang':
        res = ('hang', res)
    loop.settle(0)
    obs = observe(loop, peer, res, 0.0, t1)
    obs['served'] = peer.served
    obs['valid_for'] = peer.valid_for
    obs['transports_open'] = sum(1 for t in loop.kern.transports if not t.is_closing())
    ctx.fp = None
    return obs
