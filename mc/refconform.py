"""Binding the reference decoders (mc/refdec.py) to reality: the repository's own tests assert about 1,500
(sensor, value) pairs on responses RECORDED from real inverters.  The tests are run in-process; every response that goes
through Inverter._map_response is also decoded by the reference decoders from the sensor's own bytes, and the value the
test asserts for that sensor must be the reference's value too.

A disagreement would mean that the oracle of C11-C13/C16/C17 (written from the documentation) contradicts what the
maintainers validated against hardware - it is reported by the self-test, never as a property violation.

    python -m mc.refconform
"""
from __future__ import annotations

import importlib
import os
import sys
import unittest

from . import world, refdec
from .blocks import own_span, tname

Inverter = world.goodwe.Inverter


def run():
    """-> (pairs compared, agreeing, list of mismatches, test classes run)"""
    repo = os.path.dirname(world.goodwe.__path__[0]) if os.path.isdir(os.path.join(os.path.dirname(world.goodwe.__path__[0]), 'tests')) else '/repo'
    if repo not in sys.path:
        sys.path.insert(0, repo)
    last = {}

    def mapper(response, sensors, *more, **kw):
        cmd = response.command
        first = getattr(cmd, 'first_address', None) if type(cmd).__name__.startswith('Modbus') else None
        try:
            raw = response.response_data()
        except Exception:  # noqa: BLE001
            raw = None
        if raw is not None:
            for s in sensors:
                if not own_span(s):
                    continue
                n = refdec.size_of(s)
                pos = (s.offset - first) * 2 if first is not None else s.offset
                if pos < 0 or pos + n > len(raw):
                    continue
                last[s.id_] = (refdec.decode(s, bytes(raw[pos:pos + n])), tname(s), bytes(raw[pos:pos + n]).hex(), s)

    stats = dict(n=0, ok=0)
    mism = []

    def make_assert(old):
        def assert_sensor(self, sensor_name, expected_value, expected_unit, data):
            rec = last.get(sensor_name)
            mine = [x for x in self.sensors() if x.id_ == sensor_name]
            if rec is not None and sensor_name in data and len(mine) == 1 and rec[3] is mine[0]:
                ref, tn, own = rec[:3]
                stats['n'] += 1
                same = (expected_value is None and ref is refdec.NOVALUE) or \
                    (ref is not refdec.NOVALUE and not isinstance(ref, dict) and (refdec.same(expected_value, ref) or expected_value == ref)) or \
                    (isinstance(ref, dict) and expected_value is not None)
                if same:
                    stats['ok'] += 1
                else:
                    mism.append(dict(test=type(self).__name__, sensor=sensor_name, type=tn, own_bytes=own,
                                     test_expects=repr(expected_value)[:60], reference=repr(ref)[:60]))
            return old(self, sensor_name, expected_value, expected_unit, data)
        return assert_sensor

    restore = world.wrap_method(Inverter, '_map_response', mapper)
    classes = 0
    patched = []
    try:
        suite = unittest.TestSuite()
        for modname in ('tests.test_et', 'tests.test_dt', 'tests.test_es'):
            mod = importlib.import_module(modname)
            for name in dir(mod):
                obj = getattr(mod, name)
                if isinstance(obj, type) and issubclass(obj, unittest.TestCase) and 'assertSensor' in obj.__dict__:
                    patched.append((obj, obj.__dict__['assertSensor']))
                    obj.assertSensor = make_assert(obj.__dict__['assertSensor'])
            loaded = unittest.defaultTestLoader.loadTestsFromModule(mod)
            classes += loaded.countTestCases()
            suite.addTests(loaded)

        class Quiet(unittest.TestResult):
            pass
        res = Quiet()

        suite.run(res)
        stats['errors'] = len(res.errors) + len(res.failures)
    finally:
        restore()
        for obj, old in patched:
            obj.assertSensor = old
        world.reset()
    return stats['n'], stats['ok'], mism, classes - stats.get('errors', 0)


if __name__ == '__main__':
    n, ok, mism, k = run()
    print(f'reference decoders vs values asserted by the repository tests on recorded responses: {ok}/{n} pairs agree '
          f'({k} tests run)')
    for m in mism[:20]:
        print('  MISMATCH', m)
    sys.exit(0 if not mism and n > 500 else 1)
