"""python -m mc.replay <replay.json> : re-run one recorded violation without the explorer."""
from __future__ import annotations

import importlib
import json
import sys


def main():
    path = sys.argv[1]
    doc = json.load(open(path))
    prop = doc['property']
    from . import world  # noqa: F401
    mod = importlib.import_module(f'mc.checks.{prop.lower()}')
    out = mod.replay(doc['replay'])
    print(json.dumps(out, indent=1, default=repr))
    bad = bool(out.get('violations'))
    print('REPRODUCED' if bad else 'NOT-REPRODUCED')
    return 1 if bad else 0


if __name__ == '__main__':
    sys.exit(main())
