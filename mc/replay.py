"""python -m mc.replay <replay.json> : re-run one recorded violation without the explorer."""
from __future__ import annotations

import importlib
import json
import sys


def main():
    path = sys.argv[1]
    doc = json.load(open(path))
    prop = doc['property']
    from . import world  # noqa: F401
    mod = importlib.import_module(f'mc.checks.{prop.lower()}')
    out = mod.replay(doc['replay'])
    print(json.dumps(out, indent=1, default=repr))
    # the replay re-evaluates every clause of the check on this one case; only the recorded clause counts here
    token = doc.get('key', '').split('/')[0].replace('api-session:', '').replace('session:', '')
    vs = out.get('violations') or []
    hits = [v for v in vs if token and token in json.dumps(v, default=repr)]
    print(f'clause {token!r}: {len(hits)} of {len(vs)} reported violation(s) match')
    bad = bool(hits) if token else bool(vs)
    print('REPRODUCED' if bad else 'NOT-REPRODUCED')
    return 1 if bad else 0


if __name__ == '__main__':
    sys.exit(main())
