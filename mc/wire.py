"""Independent wire codec (written from the Modbus / AA55 frame descriptions, imports nothing of goodwe).

It is the oracle for C01-C03/C08 and the only way peers and device models read what goodwe transmits.
"""
from __future__ import annotations

import struct


def crc16(data: bytes) -> int:
    """CRC-16/MODBUS, bitwise (poly 0xA001 reflected, init 0xFFFF)."""
    c = 0xFFFF
    for x in data:
        c ^= x
        for _ in range(8):
            c = (c >> 1) ^ 0xA001 if c & 1 else c >> 1
    return c


assert crc16(b'123456789') == 0x4B37


def crc_bytes(data: bytes) -> bytes:
    c = crc16(data)
    return bytes([c & 0xFF, c >> 8])


def sum16(data: bytes) -> int:
    return sum(data) & 0xFFFF


# Modbus exception reasons, written out from the Modbus application protocol specification v1.1b3 §7
MODBUS_EXCEPTIONS = {
    1: "ILLEGAL FUNCTION",
    2: "ILLEGAL DATA ADDRESS",
    3: "ILLEGAL DATA VALUE",
    4: "SLAVE DEVICE FAILURE",
    5: "ACKNOWLEDGE",
    6: "SLAVE DEVICE BUSY",
    7: "NEGATIVE ACKNOWLEDGEMENT",
    8: "MEMORY PARITY ERROR",
    10: "GATEWAY PATH UNAVAILABLE",
    11: "GATEWAY TARGET DEVICE FAILED TO RESPOND",
}


def exception_reason(code: int) -> str:
    return MODBUS_EXCEPTIONS.get(code, "UNKNOWN")


# ------------------------------------------------------------------ response builders (what a device sends)

def rtu_frame(unit: int, pdu_after_unit: bytes, trailing: bytes = b'') -> bytes:
    """Modbus RTU answer inside the GoodWe envelope: AA 55 | unit fn ... | crc lo hi | (trailing)."""
    body = bytes([unit]) + pdu_after_unit
    return b'\xaa\x55' + body + crc_bytes(body) + trailing


def rtu_read_resp(unit: int, payload: bytes, trailing: bytes = b'') -> bytes:
    return rtu_frame(unit, bytes([3, len(payload)]) + payload, trailing)


def rtu_write_resp(unit: int, fn: int, reg: int, val: int, trailing: bytes = b'') -> bytes:
    return rtu_frame(unit, bytes([fn]) + struct.pack('>HH', reg & 0xFFFF, val & 0xFFFF), trailing)


def rtu_exc_resp(unit: int, fn: int, code: int) -> bytes:
    return rtu_frame(unit, bytes([fn | 0x80, code]))


def mbap(tx: bytes, unit: int, pdu: bytes) -> bytes:
    return bytes(tx) + b'\x00\x00' + struct.pack('>H', len(pdu) + 1) + bytes([unit]) + pdu


def tcp_read_resp(tx: bytes, unit: int, payload: bytes) -> bytes:
    return mbap(tx, unit, bytes([3, len(payload)]) + payload)


def tcp_write_resp(tx: bytes, unit: int, fn: int, reg: int, val: int) -> bytes:
    return mbap(tx, unit, bytes([fn]) + struct.pack('>HH', reg & 0xFFFF, val & 0xFFFF))


def tcp_exc_resp(tx: bytes, unit: int, fn: int, code: int) -> bytes:
    return mbap(tx, unit, bytes([fn | 0x80, code]))


def aa55_resp(rtype: bytes | str, payload: bytes) -> bytes:
    if isinstance(rtype, str):
        rtype = bytes.fromhex(rtype)
    f = b'\xaa\x55\x7f\xc0' + rtype + bytes([len(payload)]) + payload
    return f + struct.pack('>H', sum16(f))


# ------------------------------------------------------------------ strict request parsers

class BadRequest(Exception):
    pass


def parse_rtu_request(data: bytes) -> dict:
    """Strict parser of a Modbus RTU request (unit fn reg(2) x(2) [bc data] crc lo hi)."""
    if len(data) < 8:
        raise BadRequest('rtu: too short')
    if crc16(data[:-2]) != (data[-2] | (data[-1] << 8)):
        raise BadRequest('rtu: bad crc')
    unit, fn = data[0], data[1]
    reg, x = struct.unpack('>HH', data[2:6])
    if fn == 3:
        if len(data) != 8:
            raise BadRequest('rtu: read length')
        return dict(framing='rtu', unit=unit, fn=3, reg=reg, count=x)
    if fn == 6:
        if len(data) != 8:
            raise BadRequest('rtu: write length')
        return dict(framing='rtu', unit=unit, fn=6, reg=reg, value=x, data=data[4:6])
    if fn == 16:
        if len(data) < 11:
            raise BadRequest('rtu: multi too short')
        bc = data[6]
        vals = data[7:-2]
        if bc != len(vals) or x * 2 != bc or bc == 0:
            raise BadRequest('rtu: multi counts')
        return dict(framing='rtu', unit=unit, fn=16, reg=reg, count=x, data=bytes(vals))
    raise BadRequest(f'rtu: function {fn}')


def parse_tcp_request(data: bytes) -> dict:
    if len(data) < 12:
        raise BadRequest('tcp: too short')
    tx, proto, ln = struct.unpack('>HHH', data[:6])
    if proto != 0:
        raise BadRequest('tcp: protocol id')
    if ln != len(data) - 6:
        raise BadRequest('tcp: length field')
    unit, fn = data[6], data[7]
    reg, x = struct.unpack('>HH', data[8:12])
    base = dict(framing='tcp', tx=tx, unit=unit, fn=fn, reg=reg)
    if fn == 3:
        if len(data) != 12:
            raise BadRequest('tcp: read length')
        return dict(base, count=x)
    if fn == 6:
        if len(data) != 12:
            raise BadRequest('tcp: write length')
        return dict(base, value=x, data=data[10:12])
    if fn == 16:
        if len(data) < 15:
            raise BadRequest('tcp: multi too short')
        bc = data[12]
        vals = data[13:]
        if bc != len(vals) or x * 2 != bc or bc == 0:
            raise BadRequest('tcp: multi counts')
        return dict(base, count=x, data=bytes(vals))
    raise BadRequest(f'tcp: function {fn}')


def parse_aa55_request(data: bytes) -> dict:
    if len(data) < 9:
        raise BadRequest('aa55: too short')
    if data[:4] != b'\xaa\x55\xc0\x7f':
        raise BadRequest('aa55: header')
    if data[6] != len(data) - 9:
        raise BadRequest('aa55: length byte')
    if sum16(data[:-2]) != struct.unpack('>H', data[-2:])[0]:
        raise BadRequest('aa55: checksum')
    return dict(framing='aa55', cmd=bytes(data[4:6]), payload=bytes(data[7:-2]))


def parse_request(data: bytes) -> dict:
    """Dispatch on the first bytes (AA55 header / MBAP protocol id / RTU)."""
    if data[:2] == b'\xaa\x55':
        return parse_aa55_request(data)
    if len(data) >= 12 and data[2:4] == b'\x00\x00' and struct.unpack('>H', data[4:6])[0] == len(data) - 6:
        try:
            return parse_tcp_request(data)
        except BadRequest:
            pass
    return parse_rtu_request(data)


# ------------------------------------------------------------------ response classifier (C01's statement)

def classify_response(framing: str, cmd: dict, data: bytes) -> str:
    """Classify `data` as an answer to `cmd` using exactly the clauses of property C01.

    cmd: dict(kind='read', count=c) | dict(kind='write', reg=r, value=v (signed)) |
         dict(kind='multi', reg=r, count=n) | dict(kind='aa55', rtype=bytes)
    returns 'wellformed' | 'exception:<code>' | 'partial' | 'malformed'
    ('partial' = consistent prefix of a read answer whose header is present; it is never a success).
    Header magic, unit address, MBAP length / transaction id are not part of the statement and are ignored.
    """
    n = len(data)
    if framing == 'aa55':
        if n < 9:
            return 'malformed'
        want = data[6] + 9
        if n < want:
            return 'partial'
        if n > want:
            return 'malformed'
        if cmd.get('rtype') and bytes(data[4:6]) != cmd['rtype']:
            return 'malformed'
        if sum16(data[:-2]) != struct.unpack('>H', data[-2:])[0]:
            return 'malformed'
        return 'wellformed'
    if framing == 'rtu':
        h = 2  # AA55 envelope
        if n < h + 3:
            return 'malformed'
        fn = data[h + 1]
        want_fn = {'read': 3, 'write': 6, 'multi': 16}[cmd['kind']]
        if fn == 3:
            bc = data[h + 2]
            if cmd['kind'] == 'read' and bc != 2 * cmd['count']:
                return 'malformed'
            total = h + 3 + bc + 2
            if n < total:
                return 'partial' if cmd['kind'] == 'read' else 'malformed'
            body = data[h:total - 2]
        elif fn in (6, 16):
            total = h + 6 + 2
            if n < total:
                return 'malformed'
            body = data[h:total - 2]
        else:
            total = n  # exception / other function: checksum over the whole thing
            if n < h + 3 + 2:
                return 'malformed'
            body = data[h:n - 2]
        if crc16(body) != (data[total - 2] | (data[total - 1] << 8)):
            return 'malformed'
        if fn != want_fn:
            if fn == (want_fn | 0x80):
                return f'exception:{data[h + 2]}'
            return 'foreign'
        if fn in (6, 16):
            reg, val = struct.unpack('>HH', data[h + 2:h + 6])
            want_val = cmd['value'] & 0xFFFF if cmd['kind'] == 'write' else cmd['count']
            if reg != cmd['reg'] or val != want_val:
                return 'malformed'
        return 'wellformed'
    if framing == 'tcp':
        h = 6
        if n < h + 3:
            return 'malformed'
        fn = data[h + 1]
        want_fn = {'read': 3, 'write': 6, 'multi': 16}[cmd['kind']]
        if fn == 3:
            bc = data[h + 2]
            total = h + 3 + bc
            if cmd['kind'] == 'read' and bc != 2 * cmd['count']:
                return 'malformed'
            if n < total:
                return 'partial' if cmd['kind'] == 'read' else 'malformed'
        elif fn in (6, 16):
            if n < h + 6:
                return 'malformed'
        if fn != want_fn:
            if fn == (want_fn | 0x80):
                return f'exception:{data[h + 2]}'
            return 'foreign'
        if fn in (6, 16):
            reg, val = struct.unpack('>HH', data[h + 2:h + 6])
            want_val = cmd['value'] & 0xFFFF if cmd['kind'] == 'write' else cmd['count']
            if reg != cmd['reg'] or val != want_val:
                return 'malformed'
        return 'wellformed'
    raise ValueError(framing)
