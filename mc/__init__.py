"""Model-checking machinery for marcelblijleven/goodwe (see /verif/DESIGN.md)."""
