"""Model configurations (serial-number tags x rated power x refused blocks x battery) for C14-C16/C18."""
from __future__ import annotations

import itertools

from . import world
from .devsim import ModbusDevice, EsDevice, et_device_info, dt_device_info, ET_OPTIONAL, DT_OPTIONAL, Rig

import goodwe.model as M

POWERS = (3000, 14999, 15000, 24999, 25000, 50000)
import json as _json
import os as _os

_PIN = _json.load(open(_os.path.join(_os.path.dirname(__file__), 'data', 'model_tags.json')))


def _tags(pinned, current):
    """the pinned tags (a change of the library's lists must not shrink what is enumerated) plus tags the library newly knows"""
    return tuple(pinned) + tuple(t for t in current if t not in pinned)


ET_TAGS = _tags(_PIN['et_tags'], tuple(getattr(M, 'ET_MODEL_TAGS', ())) + ('25KET', '29K9ET'))
DT_TAGS = _tags(_PIN['dt_tags'], getattr(M, 'DT_MODEL_TAGS', ()))
ES_TAGS = _tags(_PIN['es_tags'], getattr(M, 'ES_MODEL_TAGS', ()))
ALL_LISTS = dict(single=M.SINGLE_PHASE_MODELS, mppt3=M.MPPT3_MODELS, mppt4=M.MPPT4_MODELS, bat2=M.BAT_2_MODELS,
                 p745=tuple(M.PLATFORM_745_LV_MODELS) + tuple(M.PLATFORM_745_HV_MODELS), p753=M.PLATFORM_753_MODELS)


def serial_for(tag: str) -> bytes:
    """16-character serial number containing `tag` (checked by an independent substring scan)."""
    if tag in ('25KET', '29K9ET'):
        s = ('9' + tag + 'T000W00000')[:16]     # e.g. 925KETT000W00000
    else:
        s = ('9010K' + tag + '000W0000')[:16]
    assert tag in s and len(s) == 16, s
    return s.encode()


def classes_of(serial: bytes):
    """Independent scan: which predicate lists have a member contained in the serial."""
    s = serial.decode()
    return frozenset(k for k, lst in ALL_LISTS.items() if any(t in s for t in lst))


def et_configs(tier, seed=0):
    """(tag, rated power, refused subset, battery_mode)"""
    tags = list(ET_TAGS)
    if tier != 'thorough':
        # one representative tag per predicate class (rotated by the seed), checked to cover every class that occurs
        by = {}
        for t in tags:
            by.setdefault(classes_of(serial_for(t)), []).append(t)
        tags = [v[seed % len(v)] for v in by.values()]
    opts = list(ET_OPTIONAL)
    for tag in tags:
        for p in POWERS:
            for r in range(len(opts) + 1):
                for sub in itertools.combinations(opts, r):
                    for bm in (0, 2):
                        yield dict(family='ET', tag=tag, power=p, refused=sub, battery_mode=bm)


def dt_configs(tier, seed=0):
    tags = list(DT_TAGS)
    for tag in tags:
        for p in (3000, 25000):
            for sub in ((), ('meter',), ('meter_version',), ('meter', 'meter_version')):
                yield dict(family='DT', tag=tag, power=p, refused=sub, battery_mode=0)


def es_configs(tier, seed=0):
    for tag in ES_TAGS:
        for fw in (b'1414E', b'2222E', b'10106', b'1111F'):
            yield dict(family='ES', tag=tag, power=5000, refused=(), battery_mode=0, firmware=fw)


def make_rig(cfg, transport='udp', fill=None, T=1, R=0, ka=False, ctx=None, keep_world=False):
    fam = cfg['family']
    if fam == 'ES':
        dev = EsDevice(firmware=cfg.get('firmware', b'1414E'), serial=serial_for(cfg['tag']), unit=cfg.get('comm_addr') or 0xF7)
        if fill:
            for i in range(len(dev.runtime)):
                dev.runtime[i] = fill(i) & 0xFF
        return Rig('ES', dev, transport, T, R, ka, ctx, keep_world=keep_world, comm_addr=cfg.get('comm_addr', 0))
    dev = ModbusDevice(unit=cfg.get('comm_addr') or (0xF7 if fam == 'ET' else 0x7F), **({'fill': fill} if fill else {}))
    dev.mbap_length = cfg.get('mbap_length', 'correct')
    dev.refuse_mode = cfg.get('refuse_mode', 'touch')
    dev.refused_requests = set(tuple(x) for x in cfg.get('refused_requests', ()))
    if fam == 'ET':
        et_device_info(dev, serial=serial_for(cfg['tag']), rated=cfg['power'], **cfg.get('versions', {}))
        dev.rf.set(35184, cfg['battery_mode'])
        for name in cfg['refused']:
            dev.refused += ET_OPTIONAL[name]
    else:
        dt_device_info(dev, serial=serial_for(cfg['tag']))
        for name in cfg['refused']:
            dev.refused += DT_OPTIONAL[name]
    return Rig(fam, dev, transport, T, R, ka, ctx, keep_world=keep_world, comm_addr=cfg.get('comm_addr', 0))


VERSION_VALUES = tuple(range(0, 41)) + (50, 99, 100, 255, 256, 1000, 32767, 65535)


def firmware_configs():
    """The three firmware version words of the ET device info (DSP1, DSP2, ARM) swept one at a time - the pinned library
    branches on none of them for the runtime poll, so every value must behave like every other."""
    out = []
    for tag, p in (('ETU', 3000), ('ETU', 15000), ('ETT', 10000), ('EHU', 5000)):
        for word in ('dsp1', 'dsp2', 'arm_version'):
            for v in VERSION_VALUES:
                out.append(dict(family='ET', tag=tag, power=p, refused=(), battery_mode=2, versions={word: v}))
    return out


def neighbour_for(cfg):
    """A configuration of the SAME family but another model class / firmware generation (for a second object that lives
    in the same process)."""
    fam = cfg['family']
    if fam == 'ET':
        small = cfg['power'] < 15000 and 'ETT' not in cfg['tag']
        return dict(family='ET', tag='ETT' if small else 'ETU', power=25000 if small else 3000, refused=() if small else ('eco_v2', 'peak_shaving'),
                    battery_mode=0 if small else 2)
    if fam == 'DT':
        single = classes_of(serial_for(cfg['tag'])) & {'single'}
        return dict(family='DT', tag='DTU' if single else 'DSN', power=10000 if single else 3000, refused=(), battery_mode=0)
    return dict(family='ES', tag='ESU', power=5000, refused=(), battery_mode=0,
                firmware=b'1414E' if cfg.get('firmware', b'1414E') != b'1414E' else b'2222E')


def configure_neighbour(cfg, polls=True):
    """Create, detect and use a neighbour object (own device model, own loop) without resetting the process state."""
    r2 = make_rig(neighbour_for(cfg), 'udp', fill=lambda a: (a * 17 + 5) % 2000, keep_world=True)
    r2.call(r2.inv.read_device_info)
    if polls:
        r2.call(r2.inv.read_runtime_data)
        r2.call(r2.inv.read_settings_data)
    return r2
