"""Engine X: choice contexts, exhaustive strategies over choice sequences, fingerprints, parallel driver."""
from __future__ import annotations

import asyncio
import hashlib
import multiprocessing as mp
import os
import sys
import time
from typing import Callable


class ReplayDivergence(Exception):
    """A recorded choice does not fit the choice point reached while replaying: the harness is not deterministic."""


class Ctx:
    """Records and replays environment choices.  Index 0 is always the default (simplest) answer."""

    def __init__(self, prefix=(), fp: Callable[[], object] | None = None, expect=None):
        self.prefix = list(prefix)
        self.trace = []  # (name, n_options, chosen)
        self.fp = fp
        self.fps = []  # fingerprint at each choice point (when fp is set)
        self.expect = expect  # optional list of (name, n) to verify while replaying
        self.labels = []      # (choice point name, repr of the chosen option): a replay format that survives a grown alphabet

    def choose(self, name: str, options):
        i = len(self.trace)
        n = len(options)
        c = self.prefix[i] if i < len(self.prefix) else 0
        if c >= n or c < 0:
            raise ReplayDivergence(f'choice {i} ({name}): recorded {c} but only {n} options')
        if self.expect is not None and i < len(self.expect):
            en, ek = self.expect[i]
            if en != name or ek != n:
                raise ReplayDivergence(f'choice {i}: expected {en}/{ek}, reached {name}/{n}')
        if self.fp is not None:
            self.fps.append(self.fp())
        self.trace.append((name, n, c))
        self.labels.append((name, repr(options[c])))
        return options[c]

    @property
    def choices(self):
        return [c for _, _, c in self.trace]

    def shape(self):
        return [(n, k) for n, k, _ in self.trace]


class LabelCtx(Ctx):
    """Replays a recording by NAMES: at a choice point whose name is in the recording the recorded option is taken
    (looked up by its repr among the options offered now); choice points the recording does not know - added to the
    environment model later - take the default.  Recordings stay valid when alphabets grow or new choice points appear."""

    def __init__(self, labels):
        super().__init__(())
        self.want = {}
        for name, lab in labels:
            self.want.setdefault(name, []).append(lab)

    def choose(self, name, options):
        c = 0
        q = self.want.get(name)
        if q:
            lab = q.pop(0)
            reprs = [repr(o) for o in options]
            if lab not in reprs:
                raise ReplayDivergence(f'choice point {name}: recorded option {lab} is not offered any more ({reprs[:6]}...)')
            c = reprs.index(lab)
        self.trace.append((name, len(options), c))
        self.labels.append((name, repr(options[c])))
        return options[c]


class Stats:
    """Coverage bookkeeping shared by all strategies (mergeable across worker processes)."""

    def __init__(self):
        self.executions = 0
        self.choice_points = 0
        self.states = set()       # fingerprints (hashed)
        self.edges = set()        # (fingerprint, choice)
        self.outcomes = {}        # outcome class -> count
        self.samples = []
        self.violations = []      # dicts
        self.capped = None
        self.max_depth = 0

    def note(self, ctx: Ctx, outcome_class):
        self.executions += 1
        self.choice_points += len(ctx.trace)
        self.max_depth = max(self.max_depth, len(ctx.trace))
        if ctx.fps:
            for f, (_, _, c) in zip(ctx.fps, ctx.trace):
                self.states.add(f)
                self.edges.add((f, c))
        self.outcomes[outcome_class] = self.outcomes.get(outcome_class, 0) + 1

    def merge(self, other: "Stats"):
        self.executions += other.executions
        self.choice_points += other.choice_points
        self.states |= other.states
        self.edges |= other.edges
        for k, v in other.outcomes.items():
            self.outcomes[k] = self.outcomes.get(k, 0) + v
        for s in other.samples:
            if len(self.samples) < 8:
                self.samples.append(s)
        self.violations.extend(other.violations)
        self.capped = self.capped or other.capped
        self.max_depth = max(self.max_depth, other.max_depth)


def h(obj) -> int:
    """Stable 64-bit hash of a repr-able canonical object (PYTHONHASHSEED independent)."""
    return int.from_bytes(hashlib.blake2b(repr(obj).encode(), digest_size=8).digest(), 'big')


def explore(run: Callable[[Ctx], object], depth: int | None = None, deviations: int | None = None,
            max_exec: int | None = None, on_exec: Callable[[Ctx, object], None] | None = None,
            root_prefix=()):
    """Stateless exhaustive exploration of all choice sequences.

    `run(ctx)` performs one complete execution, drawing every environment answer from ctx.choose().
    depth      - only the first `depth` choice points are varied (later ones take the default);
    deviations - at most this many non-default choices per execution (iterative deviation bounding is done by
                 the caller by invoking explore with 0, 1, 2, ...; here each bound is explored completely);
    Executions always run to completion.  Returns (n_executions, capped?).
    """
    n = 0
    capped = False
    stack = [list(root_prefix)]
    base = len(root_prefix)
    while stack:
        prefix = stack.pop()
        if max_exec is not None and n >= max_exec:
            capped = True
            break
        from . import kernel as _k
        if _k.BUSY_HITS >= 2:
            capped = True     # the code under test spins: the executions seen so far carry the violation, do not burn hours
            break
        ctx = Ctx(prefix)
        res = run(ctx)
        n += 1
        if on_exec:
            on_exec(ctx, res)
        tr = ctx.trace
        devs_before = sum(1 for (_, _, c) in tr[base:len(prefix)] if c)
        lim = len(tr) if depth is None else min(len(tr), base + depth)
        # children: deviate at one later position (positions < len(prefix) are fixed by this node)
        for i in range(lim - 1, len(prefix) - 1, -1):
            if deviations is not None and devs_before + 1 > deviations:
                break
            nopt = tr[i][1]
            for alt in range(nopt - 1, 0, -1):
                stack.append([c for _, _, c in tr[:i]] + [alt])
    return n, capped


# ------------------------------------------------------------------ fingerprints

def coro_stack(coro):
    out = []
    while coro is not None:
        fr = getattr(coro, 'cr_frame', None) or getattr(coro, 'gi_frame', None)
        if fr is None:
            st = getattr(coro, '_state', None)
            out.append((type(coro).__name__ + (':' + st if isinstance(st, str) else ''), -1))     # (a pair like the frames: stacks must sort)
            break
        out.append((fr.f_code.co_qualname, fr.f_lasti))
        coro = getattr(coro, 'cr_await', None) or getattr(coro, 'gi_yieldfrom', None)
    return tuple(out)


def py_stack(limit=12):
    """qualname + f_lasti of the frames of the running task (choice points are mostly reached from inside
    the running coroutine, where cr_await is empty)."""
    f = sys._getframe(2)
    out = []
    while f is not None and len(out) < limit:
        co = f.f_code
        if 'asyncio' not in co.co_filename and '/mc/' not in co.co_filename:
            out.append((co.co_qualname, f.f_lasti))
        f = f.f_back
    return tuple(out)


def _canon(v, now, tx_mask=True, depth=2):
    if isinstance(v, asyncio.Future):
        return ('fut', v._state)
    if isinstance(v, asyncio.Lock):
        return ('lock', v.locked(), len(v._waiters or ()))
    if isinstance(v, asyncio.TimerHandle):
        return ('timer', v.cancelled(), round(v.when() - now, 6))
    if isinstance(v, asyncio.BaseTransport):
        return ('tr', v.is_closing())
    if isinstance(v, asyncio.AbstractEventLoop):
        return 'loop:closed' if v.is_closed() else 'loop'
    if isinstance(v, (bytes, bytearray)):
        return bytes(v).hex()
    if isinstance(v, (int, float, str, bool, type(None))):
        return v
    if hasattr(v, 'request') and hasattr(v, 'validator'):
        r = v.request
        return ('cmd', type(v).__name__, r.hex())
    # containers and sensor definitions are part of the state: a cache or memo added to an object must not be merged away
    if depth > 0:
        if isinstance(v, (set, frozenset)):
            return ('set', tuple(sorted(repr(_canon(x, now, tx_mask, depth - 1)) for x in v)))
        if isinstance(v, dict):
            return ('dict', tuple(sorted((repr(_canon(k, now, tx_mask, depth - 1)), repr(_canon(x, now, tx_mask, depth - 1)))
                                         for k, x in v.items())))
        if isinstance(v, (list, tuple)):
            return (type(v).__name__, tuple(_canon(x, now, tx_mask, depth - 1) for x in v))
    if hasattr(v, 'id_') and hasattr(v, 'offset'):
        own = tuple(sorted((k, x) for k, x in vars(v).items()
                           if k not in ('id_', 'offset', 'name') and isinstance(x, (int, float, str, bool, type(None)))))
        return ('sensor', type(v).__name__, v.id_, v.offset, own)
    if isinstance(v, (set, frozenset, dict, list, tuple)):
        return (type(v).__name__, len(v))
    return type(v).__name__


def obj_state(o, now=0.0):
    """Canonical form of ALL instance attributes of an object (containers and sensor definitions included)."""
    return tuple((k, _canon(v, now, True, 3)) for k, v in sorted(vars(o).items()) if k != 'protocol' and k != '_protocol')


def fingerprint(loop, objs, extra=()):
    """Fine fingerprint of everything that can influence the future of an execution (DESIGN 2.4)."""
    now = loop.time()
    parts = []
    for o in objs:
        d = []
        for k, v in sorted(vars(o).items()):
            if k == 'protocol':
                v = 'proto'
            elif k == 'command' and v is not None and len(getattr(v, 'request', b'')) >= 12 and \
                    type(v).__name__.startswith('ModbusTcp'):
                v = ('cmd', type(v).__name__, v.request[2:].hex())  # the tx id is the only masked datum
            else:
                v = _canon(v, now, True, 2 if o is objs[0] else 0)
            d.append((k, v))
        parts.append(tuple(d))
    tasks = tuple(sorted((coro_stack(t.get_coro()) for t in asyncio.all_tasks(loop) if not t.done()), key=repr))
    ready = tuple(getattr(hd._callback, '__qualname__', type(hd._callback).__name__)
                  for hd in loop._ready if not hd._cancelled)
    sched = tuple(sorted((round(hd.when() - now, 6), getattr(hd._callback, '__qualname__', '?'))
                         for hd in loop._scheduled if not hd._cancelled))
    kern = loop.kern
    netq = tuple(sorted((round(t - now, 6), 'fn' if callable(it) else it[0],
                         len(it[1]) if (not callable(it) and it[0] == 'data') else 0) for t, _, s, it in kern.q))
    # only descriptors registered with the current loop's selector can influence the future (a socket whose
    # transport belongs to a closed loop is dead weight until it is garbage collected)
    live = [s for fd, s in kern.socks.items() if fd in kern.keys]
    rxq = tuple(sorted((s.kind, tuple((i[0], len(i[1]) if i[0] == 'data' else 0) for i in s.rx)) for s in live))
    return h((tuple(parts), tasks, ready, sched, netq, rxq, len(live), py_stack(), extra))


# ------------------------------------------------------------------ parallel driver

def n_workers() -> int:
    try:
        return max(1, int(os.environ.get('VERIF_WORKERS', '0')) or min(16, os.cpu_count() or 1))
    except ValueError:
        return 1


_JOB_FN = None


def _call(job):
    from . import peer as _peer
    try:
        out = _JOB_FN(job)
    except SystemExit as e:      # (peer.HarnessBug: a pool worker must not simply exit, the pool would wait for ever)
        raise RuntimeError(f'harness bug in a worker: {e}') from e
    if _peer.HARNESS_BUGS:
        raise RuntimeError(f'harness bug in a worker: {_peer.HARNESS_BUGS[0]}')
    return out


def pmap(fn, jobs, workers: int | None = None, chunksize: int = 1):
    """Deterministic parallel map: results come back in job order whatever the scheduling."""
    global _JOB_FN
    jobs = list(jobs)
    w = min(workers or n_workers(), max(1, len(jobs)))
    if w <= 1:
        return [fn(j) for j in jobs]
    _JOB_FN = fn
    ctx = mp.get_context('fork')
    with ctx.Pool(w) as pool:
        return list(pool.imap(_call, jobs, chunksize))


class Timer:
    def __init__(self):
        self.t0 = time.time()

    def s(self):
        return round(time.time() - self.t0, 3)
