"""Scripted peers: the adversarial network/inverter for the protocol state machine (C04-C10).

A peer answers transmission k with one *letter* of a fault alphabet.  The letter is either forced (history
driven checks) or drawn from the explorer's choice context (one choice point per transmission).
"""
from __future__ import annotations

import errno
import struct

from . import wire

EPS_FRAC = 1e-4  # 'just in time' / 'just late' = T -/+ EPS_FRAC*T; far above float noise, far below any other delay
D0 = 0.001       # "at once": network latency of a prompt answer


def tag_payload(reg: int, count: int) -> bytes:
    """Deterministic, request dependent register contents (so an answer can be told from another's)."""
    return b''.join(struct.pack('>H', ((reg + i) * 40503 + 7) & 0xFFFF) for i in range(count))


COMMON = ['valid', 'drop', 'valid@.5T', 'valid@T-e', 'valid@T+e', 'valid@1.5T', 'garbage', 'short', 'badsum',
          'foreign', 'exc2', 'exc12', 'frag2@.4T', 'frag2@1.2T', 'frag1', 'dup', '2xinvalid', 'invalid+valid']
UDP_ONLY = ['icmp', 'senderr-netunreach', 'senderr-hostunreach']
TCP_ONLY = ['fin', 'rst', 'valid+fin']
CONNECT = ['ok', 'refused', 'unreachable', 'hang']
UDP_CONNECT = ['ok', 'netunreach']


def alphabet(transport: str):
    return COMMON + (UDP_ONLY if transport == 'udp' else TCP_ONLY)


HARNESS_BUGS = []      # (per process) what went wrong in the harness's own scripted environment


class HarnessBug(SystemExit):
    """An error in the harness's own scripted environment, raised so that nothing between the socket model and the
    check's top level can take it for a fault of the network (asyncio transports re-raise SystemExit) - and recorded in
    HARNESS_BUGS, because the harness's own 'whatever the call raises is an observation' wrappers would swallow it."""

    def __init__(self, msg):
        super().__init__(msg)
        HARNESS_BUGS.append(msg)


class ScriptPeer:
    def __init__(self, transport: str, T: float, ctx=None, letters=None, conn_letters=None, unit=None,
                 payload_fn=tag_payload, exc_code=2):
        self.transport = transport
        self.T = T
        self.ctx = ctx
        self.letters = letters or alphabet(transport)
        self.conn_letters = conn_letters or ['ok']
        self.forced = []        # letters forced for the next transmissions
        self.forced_conn = []
        self.default_letter = None  # used when forced is exhausted and ctx is None
        self.sent = []          # (t, fd, bytes, letter)
        self.served = []        # per tx: list of byte strings put on the wire for it
        self.valid_for = []     # per tx: the complete valid answer (or None)
        self.connects = []      # (t, outcome)
        self.unit = unit
        self.payload_fn = payload_fn
        self.exc_code = exc_code
        self.bad_requests = []
        self.kern = None

    # ---- answers
    def valid_answer(self, data: bytes):
        """The conforming answer to request bytes `data` (None if the request does not parse)."""
        try:
            rq = wire.parse_request(data)
        except wire.BadRequest as e:
            self.bad_requests.append((data, str(e)))
            return None, None
        if rq['framing'] == 'aa55':
            cmd = rq['cmd']
            rtype = bytes([cmd[0], cmd[1] | 0x80])
            if cmd == b'\x01\x1a':
                off, cnt = struct.unpack('>HB', rq['payload'])
                pl = self.payload_fn(off, cnt)
            elif cmd[0] == 1:
                pl = self.payload_fn(cmd[1], 40)
            else:
                pl = b'\x06'
            return wire.aa55_resp(rtype, pl), rq
        unit = rq['unit']
        if rq['fn'] == 3:
            pl = self.payload_fn(rq['reg'], rq['count'])
            if rq['framing'] == 'tcp':
                return wire.tcp_read_resp(struct.pack('>H', rq['tx']), unit, pl), rq
            return wire.rtu_read_resp(unit, pl), rq
        x = rq['value'] if rq['fn'] == 6 else rq['count']
        if rq['framing'] == 'tcp':
            return wire.tcp_write_resp(struct.pack('>H', rq['tx']), unit, rq['fn'], rq['reg'], x), rq
        return wire.rtu_write_resp(unit, rq['fn'], rq['reg'], x), rq

    def _exc(self, rq, code):
        if rq['framing'] == 'tcp':
            return wire.tcp_exc_resp(struct.pack('>H', rq['tx']), rq['unit'], rq['fn'], code)
        if rq['framing'] == 'rtu':
            return wire.rtu_exc_resp(rq['unit'], rq['fn'], code)
        return None

    def _foreign(self, rq):
        if rq['framing'] == 'tcp':
            return wire.mbap(struct.pack('>H', rq['tx']), rq['unit'], bytes([4, 2, 0, 1]))
        if rq['framing'] == 'rtu':
            return wire.rtu_frame(rq['unit'], bytes([4, 2, 0, 1]))
        return wire.aa55_resp('01ff', b'\x00\x01')

    # ---- kernel callbacks
    def on_connect(self):
        if self.forced_conn:
            o = self.forced_conn.pop(0)
        elif self.ctx is not None and len(self.conn_letters) > 1:
            o = self.ctx.choose(f'connect{len(self.connects)}', self.conn_letters)
        else:
            o = self.conn_letters[0]
        self.connects.append((self.kern.now, o))
        return o, D0

    def on_udp_connect(self):
        """Outcome of connecting a datagram socket: forced by a history, chosen by the explorer when UDP connect letters
        were given, 'ok' otherwise."""
        if getattr(self, 'forced_udp_conn', None):
            return self.forced_udp_conn.pop(0)
        letters = getattr(self, 'udp_conn_letters', None)
        if self.ctx is not None and letters and len(letters) > 1:
            self.n_udp_conn = getattr(self, 'n_udp_conn', 0) + 1
            return self.ctx.choose(f'udpconnect{self.n_udp_conn}', letters)
        return 'ok'

    def on_send(self, sock, data):
        k = len(self.sent)
        now = self.kern.now
        if self.forced:
            letter = self.forced.pop(0)
        elif self.ctx is not None:
            letter = self.ctx.choose(f'tx{k}', self.letters)
        else:
            letter = self.default_letter or self.letters[0]
        self.sent.append((now, sock.fd, data, letter))
        good, rq = self.valid_answer(data)
        self.valid_for.append(good)
        served = []
        self.served.append(served)
        if good is None:
            return  # unparsable request: a real inverter stays silent (reported by C03 only)
        T = self.T
        e = EPS_FRAC * T

        def put(dt, item):
            self.kern.at(now + dt, sock, item)
            if item[0] == 'data':
                served.append(item[1])

        g = bytes(range(1, 13))
        if len(good) > 9:
            bad = good[:-1] + bytes([good[-1] ^ 0x01]) if rq['framing'] != 'tcp' else \
                good[:8] + bytes([good[8] ^ 0x02]) + good[9:]
        else:
            bad = g
        cut = min(len(good) - 1, 9 if rq['framing'] != 'rtu' else 5) if letter.startswith('frag') else 0
        if letter == 'valid':
            put(D0, ('data', good))
        elif letter == 'drop':
            pass
        elif letter in ('valid-tx0', 'valid-tx+1'):
            # (Modbus/TCP) a conforming answer whose MBAP transaction id is not the request's: GoodWe firmware fills the
            # header unreliably and the library does not look at the field
            tx = 0 if letter == 'valid-tx0' else (int.from_bytes(good[:2], 'big') + 1) & 0xFFFF
            put(D0, ('data', tx.to_bytes(2, 'big') + good[2:]))
        elif letter == 'valid@.5T':
            put(.5 * T, ('data', good))
        elif letter == 'valid@.6T':
            put(.6 * T, ('data', good))
        elif letter == 'valid@T-e':
            put(T - e, ('data', good))
        elif letter == 'valid@T+e':
            put(T + e, ('data', good))
        elif letter == 'valid@1.5T':
            put(1.5 * T, ('data', good))
        elif letter == 'garbage':
            put(D0, ('data', g))
        elif letter == 'short':
            put(D0, ('data', b'\xaa\x55\x7f'))
        elif letter.startswith('cut') and letter[3:].isdigit():
            # the conforming answer cut off after N bytes (header only, header + function code, ...), nothing follows
            put(D0, ('data', good[:int(letter[3:])]))
        elif letter == 'badsum':
            put(D0, ('data', bad))
        elif letter == 'foreign':
            put(D0, ('data', self._foreign(rq)))
        elif letter.startswith('exc@'):
            # exception frame (code 2) delayed by a fraction of the timeout, e.g. 'exc@.5T'
            f = self._exc(rq, self.exc_code)
            put(float(letter[4:-1]) * T, ('data', f if f is not None else g))
        elif letter.startswith('exc'):
            code = int(letter[3:]) if letter[3:] else self.exc_code
            f = self._exc(rq, code)
            put(D0, ('data', f if f is not None else g))
        elif letter == 'frag2@.4T':
            put(D0, ('data', good[:cut]))
            put(.4 * T, ('data', good[cut:]))
        elif letter == 'frag2@1.2T':
            put(D0, ('data', good[:cut]))
            put(1.2 * T, ('data', good[cut:]))
        elif letter == 'frag1':
            put(D0, ('data', good[:cut]))
        elif letter == 'dup':
            put(D0, ('data', good))
            put(D0, ('data', good))
        elif letter == '2xinvalid':
            put(D0, ('data', g))
            put(D0, ('data', g))
        elif letter == 'invalid+valid':
            put(D0, ('data', g))
            put(D0, ('data', good))
        elif letter == 'icmp':
            put(D0, ('err', ConnectionRefusedError(errno.ECONNREFUSED, 'Connection refused')))
        elif letter == 'valid+icmp':
            put(D0, ('data', good))
            put(.3 * T, ('err', ConnectionRefusedError(errno.ECONNREFUSED, 'Connection refused')))
        elif letter == 'senderr-netunreach':
            raise OSError(errno.ENETUNREACH, 'Network is unreachable')
        elif letter == 'senderr-hostunreach':
            raise OSError(errno.EHOSTUNREACH, 'No route to host')
        elif letter == 'senderr-perm':
            raise PermissionError(errno.EPERM, 'Operation not permitted')
        elif letter == 'senderr-pipe':
            raise BrokenPipeError(errno.EPIPE, 'Broken pipe')
        elif letter == 'fin':
            put(D0, ('eof',))
        elif letter == 'rst':
            put(D0, ('err', ConnectionResetError(errno.ECONNRESET, 'Connection reset by peer')))
        elif letter == 'valid+fin':
            put(D0, ('data', good))
            put(.3 * T, ('eof',))
        elif letter == 'valid+rst':
            put(D0, ('data', good))
            put(.3 * T, ('err', ConnectionResetError(errno.ECONNRESET, 'Connection reset by peer')))
        else:
            raise AssertionError(f'unknown letter {letter}')


class PlanPeer:
    """Peer whose answer to transmission k is given by plan(k, request_bytes, now) -> [(delay, item), ...]."""

    def __init__(self, plan, conn_plan=None):
        self.plan = plan
        self.conn_plan = conn_plan
        self.sent = []
        self.connects = []
        self.kern = None
        self.bad_requests = []

    def on_connect(self):
        o = self.conn_plan(len(self.connects)) if self.conn_plan else 'ok'
        self.connects.append((self.kern.now, o))
        return o, D0

    def on_send(self, sock, data):
        k = len(self.sent)
        now = self.kern.now
        self.sent.append((now, sock.fd, data, None))
        try:
            answers = list(self.plan(k, data, now))
        except OSError:
            raise
        except Exception as e:  # noqa: BLE001
            # the plan is harness code: an exception in it must not look like a network fault to the library (the
            # transports swallow everything but SystemExit / KeyboardInterrupt)
            raise HarnessBug(f'scripted inverter raised {type(e).__name__}: {e}') from e
        for dt, item in answers:
            if isinstance(item, BaseException):
                raise item
            self.kern.at(now + dt, sock, item)
