"""Session explorer: histories of several requests on ONE protocol object, every transmission answered by a letter
of the full fault alphabet, optional gaps between the requests, no draining in between (answers of an earlier request
may still be in flight).  Deviation-bounded exhaustive exploration of the whole history, with the monitors of
C04/C05/C07/C08/C09/C10 evaluated on every request of every history.

This generalises the hand-picked "prior request" lists of the individual checks: every state a short history can reach
is a start state for the next request.
"""
from __future__ import annotations

from . import world, wire
from .explore import Ctx, Stats, explore, fingerprint, pmap
from .kernel import KLoop, Kernel
from .peer import ScriptPeer, alphabet, D0, EPS_FRAC
from .proto import make_protocol, _exec, Obs

gp = world.gp
TOL = 1e-6
GAPS = [0.0, 0.5, 1.2]     # fractions of T between two requests
LETTERS_EXTRA = ['exc@.5T', 'valid@.6T']


def letters_for(tr):
    return alphabet(tr) + LETTERS_EXTRA


class WatchPeer(ScriptPeer):
    def on_send(self, sock, data):
        self.max_open = max(self.max_open, sum(1 for t in self.kern.transports if not t.is_closing()))
        return super().on_send(sock, data)

    def on_connect(self):
        self.max_open = max(self.max_open, sum(1 for t in self.kern.transports if not t.is_closing()))
        return super().on_connect()


def run_session(cfg, ctx, nreq, fp=True):
    """-> list of per-request observations (dicts)"""
    world.reset()
    tr, T, R, ka = cfg['transport'], cfg['T'], cfg['R'], cfg['ka']
    letters = letters_for(tr)
    peer = WatchPeer(tr, T, ctx, letters, ['ok', 'refused', 'hang'] if tr == 'tcp' and cfg.get('tcp_connect', True) else ['ok'])
    peer.max_open = 0
    if tr == 'udp' and cfg.get('udp_connect', True):
        peer.udp_conn_letters = ['ok', 'netunreach']
    kern = Kernel(peer, ctx=ctx)
    loop = KLoop(kern=kern)
    if cfg.get('neighbour'):
        # another protocol object for the same endpoint with OTHER timeout / retries / keep-alive was used before in this
        # process (one answered request, one exhausted one) and stays alive: nothing of it may show in this session
        q = make_protocol(tr, 0.25 * T, R + 2, not ka)
        peer.forced = ['valid', 'drop', 'drop', 'drop', 'drop', 'drop']
        saved, peer.ctx = peer.ctx, None
        loop.run(_exec(q.read_command(0x7000, 2), q))
        loop.run(_exec(q.read_command(0x7000, 2), q))
        peer.forced = []
        peer.ctx = saved
        loop.settle(0)
        del peer.sent[:]
        if hasattr(peer, 'valid_for'):
            del peer.valid_for[:]
    p = make_protocol(tr, T, R, ka)
    if fp:
        ctx.fp = lambda: fingerprint(loop, (p,))
    out = []
    if cfg.get('chained'):
        return _run_chained(cfg, ctx, nreq, loop, kern, peer, p)
    for i in range(nreq):
        if i:
            gap = ctx.choose(f'gap{i}', GAPS)
            if gap:
                loop.settle(gap * T)
        cmd = p.read_command(0x891C + 16 * i, 3)
        t0 = loop.time()
        l0, s0 = len(kern.log), len(peer.sent)
        # answers of earlier transmissions still in flight (or unread) would be taken for answers to this request - the
        # wire protocols carry no correlation id; the positive clauses below only apply to a clean start
        clean = not [x for x in kern.q if not callable(x[3])] and all(not sk.rx for sk in kern.socks.values())
        peer.max_open = 0
        kern.ntx = 0
        st, res = loop.run(_exec(cmd, p))
        t1 = loop.time()
        if st == 'hang':
            res = ('hang', res)
        loop.settle(0)
        import gc
        log = kern.log[l0:]
        o = Obs(asked=0x891C + 16 * i, result=res, t0=t0, t1=t1, txs=[(t, fd, d) for (t, fd, d, _) in peer.sent[s0:]],
                letters=[x for (_, _, _, x) in peer.sent[s0:]], valid_for=peer.valid_for[s0:],
                events=[e for e in log if e[0] in ('tx', 'rx', 'connect', 'connected')],
                rx=[e for e in log if e[0] == 'rx' and t0 - TOL <= e[2] <= t1 + TOL],
                clean_start=clean, max_open=peer.max_open, open_after=sum(1 for t in kern.transports if not t.is_closing()),
                unhandled=[c.get('message', '') for c in loop.unhandled])
        out.append(o)
        if res[0] == 'hang':
            break
    ctx.fp = None
    return out


def _run_chained(cfg, ctx, nreq, loop, kern, peer, p):
    """The requests of the session are awaited one after the other inside ONE coroutine - as read_device_info() and
    read_runtime_data() issue their requests: the next request starts in the same loop iteration in which the previous
    one completed, callbacks the previous one scheduled with call_soon have not run yet."""
    import asyncio
    T = cfg['T']
    marks = []

    async def chain():
        for i in range(nreq):
            if i:
                gap = ctx.choose(f'gap{i}', GAPS)
                if gap:
                    await asyncio.sleep(gap * T)
            cmd = p.read_command(0x891C + 16 * i, 3)
            clean = not [x for x in kern.q if not callable(x[3])] and all(not sk.rx for sk in kern.socks.values())
            m = dict(t0=loop.time(), l0=len(kern.log), s0=len(peer.sent), clean=clean)
            marks.append(m)
            peer.max_open = 0
            kern.ntx = 0
            m['res'] = await _exec(cmd, p)
            m['t1'] = loop.time()
            m['l1'], m['s1'] = len(kern.log), len(peer.sent)
            m['max_open'] = peer.max_open
    st, why = loop.run(chain())
    loop.settle(0)
    out = []
    for i, m in enumerate(marks):
        if 'res' not in m:
            m['res'], m['t1'], m['l1'], m['s1'], m['max_open'] = ('hang', why), loop.time(), len(kern.log), len(peer.sent), peer.max_open
        log = kern.log[m['l0']:m['l1']]
        sent = peer.sent[m['s0']:m['s1']]
        last = i == len(marks) - 1
        out.append(Obs(asked=0x891C + 16 * i, result=m['res'], t0=m['t0'], t1=m['t1'], txs=[(t, fd, d) for (t, fd, d, _) in sent],
                       letters=[x for (_, _, _, x) in sent], valid_for=peer.valid_for[m['s0']:m['s1']],
                       events=[e for e in log if e[0] in ('tx', 'rx', 'connect', 'connected')],
                       rx=[e for e in log if e[0] == 'rx' and m['t0'] - TOL <= e[2] <= m['t1'] + TOL],
                       clean_start=m['clean'], max_open=m['max_open'],
                       # between chained requests the post-request close has not run yet: only the end state is judged
                       open_after=(sum(1 for t in kern.transports if not t.is_closing()) if last else (0 if not cfg['ka'] else 1)),
                       unhandled=[c.get('message', '') for c in loop.unhandled]))
    ctx.fp = None
    return out


def _code_of(letter):
    return int(letter[3:]) if letter.startswith('exc') and letter[3:].isdigit() else 2


def _delay_of(letter, T):
    if letter.startswith('exc') and letter[3:].isdigit():
        return D0
    if letter.startswith('exc@'):
        return float(letter[4:-1]) * T
    return None


def monitors(cfg, obs_list):
    """-> list of (property, clause, cause, request index).  Every clause states exactly when it applies."""
    T, R, tr, ka = cfg['T'], cfg['R'], cfg['transport'], cfg['ka']
    lat = 0.001 if tr == 'tcp' else 0.0
    out = []
    for i, o in enumerate(obs_list):
        res = o.result
        if res[0] == 'hang':
            out.append(('C04', 'terminates', res[1], i))
            continue
        n = len(o.txs)
        if n > R + 1:
            out.append(('C04', 'tx<=R+1', f'{n} transmissions', i))
            out.append(('C05', 'tx<=R+1', f'{n} transmissions: more than the configured retry budget', i))
        # completion bound
        last, bound = o.t0, T
        for e in o.events:
            t = e[2] if e[0] in ('tx', 'rx', 'connect') else e[1]
            if o.t0 - TOL <= t <= o.t1 + TOL and t >= last:
                last, bound = t, (5.0 if e[0] == 'connect' else T)
        if o.t1 > last + bound + TOL:
            out.append(('C04', 'completes<=last+T', f'done {o.t1:.6f}, last event {last:.6f}', i))
        connfail = any(e[0] == 'connect' and e[1] != 'ok' for e in o.events)      # a socket could not be connected
        quiet = not o.rx and o.clean_start and not connfail    # nothing at all was received during this request
        ts = [t for t, _, _ in o.txs]
        if all(x == 'drop' for x in o.letters) and quiet and o.letters:
            bad = None
            if n != R + 1:
                bad = f'{n} transmissions'
            elif any(abs((b - a) - T) > TOL and abs((b - a) - T - lat) > TOL for a, b in zip(ts, ts[1:])):
                bad = f'spacing {[round(b - a, 6) for a, b in zip(ts, ts[1:])]}'
            elif abs(o.t1 - ts[-1] - T) > TOL:
                bad = f'reported {o.t1 - ts[-1]:.6f} after the last transmission'
            elif res[0] != 'exc' or res[1] not in ('RequestFailedException', 'MaxRetriesException'):
                bad = f'outcome {res[:2]}'
            if bad:
                out.append(('C04', 'silent-request:R+1-spaced-T', bad, i))
                if i:
                    out.append(('C05', 'silent-request:R+1-spaced-T', bad, i))
        # an attempt during which nothing at all came back lasts exactly one timeout - not less (C05: every request gets
        # the full timeout, whatever happened to earlier requests), not more (C04)
        if o.clean_start and res[0] != 'hang' and not connfail:
            rxt = [e[2] for e in o.events if e[0] == 'rx']
            for k in range(n):
                if o.letters[k] != 'drop':
                    continue
                end = ts[k + 1] if k + 1 < n else o.t1
                if any(ts[k] - TOL <= t <= end + TOL for t in rxt):
                    continue
                dur = end - ts[k]
                if abs(dur - T) > TOL and not (k + 1 < n and abs(dur - T - lat) <= TOL):
                    out.append(('C05', 'quiet-attempt-lasts-exactly-T',
                                f'attempt {k + 1} ended {dur:.6f} after its transmission, nothing was received meanwhile', i))
                    break
        # an exception frame as the only thing received
        if o.letters and all(x == 'drop' for x in o.letters[:-1]) and _delay_of(o.letters[-1], T) is not None \
                and len(o.rx) == 1 and o.clean_start:
            k = len(o.letters) - 1
            arrival = ts[k] + _delay_of(o.letters[-1], T)
            if arrival < ts[k] + T - TOL:
                if res[0] != 'exc' or res[1] != 'RequestRejectedException' or res[2] != wire.exception_reason(_code_of(o.letters[-1])):
                    out.append(('C08', 'rejected-with-reason', str(res[:3]), i))
                elif abs(o.t1 - arrival) > TOL or n != k + 1:
                    out.append(('C08', 'immediate-no-retransmission', f'done {o.t1 - arrival:.6f} after the frame, {n} transmissions', i))
        # own answer, alone on the wire
        if len(o.letters) == 1 and o.letters[0] in ('valid', 'valid@.5T', 'valid@.6T', 'frag2@.4T', 'valid@T-e'):
            pieces = 2 if o.letters[0] == 'frag2@.4T' else 1
            if len(o.rx) == pieces and o.clean_start:
                if not (res[0] == 'ok' and res[1] == o.valid_for[0] and n == 1):
                    out.append(('C07' if pieces == 2 else 'C04', 'own-answer-in-time-succeeds', f'{res[0]} with {n} transmissions', i))
        if o.letters and o.clean_start and len(o.letters) == 1 and i and o.letters[0] == 'valid' and res[0] != 'ok':
            out.append(('C10', 'next-request-works-at-once', f'request {i + 1}: answered by a conforming frame, outcome {res[:2]}', i))
        # the FIRST transmission is answered in time (conforming frame / exception frame) and nothing else was in flight
        # when the request started: there is no reason for a second transmission, whatever came before on this object
        if o.letters and o.clean_start and len(o.letters) > 1:
            if o.letters[0] in ('valid', 'valid@.5T', 'valid@.6T'):
                out.append(('C02', 'first-transmission-answered:no-retransmission',
                            f'{n} transmissions although #1 was answered by a conforming frame; outcome {res[:2]}', i))
                if i:
                    # "after a completed request / a dropped connection the next request (re)connects and works"
                    out.append(('C10', 'next-request-works-at-once',
                                f'request {i + 1}: {n} transmissions although #1 was answered by a conforming frame; outcome {res[:2]}', i))
            elif _delay_of(o.letters[0], T) is not None and _delay_of(o.letters[0], T) < T - TOL:
                out.append(('C08', 'first-transmission-refused:no-retransmission',
                            f'{n} transmissions although #1 was answered by an exception frame; outcome {res[:2]}', i))
        # what a request delivers is an answer to one of ITS OWN transmissions (nothing of an earlier request was in flight
        # when it started): not a frame kept from an earlier request, and never without having transmitted at all
        if res[0] == 'ok' and o.clean_start:
            if n == 0:
                out.append(('C01', 'delivered-without-transmitting', f'request {i + 1} returned {len(res[1])} bytes without sending anything', i))
            elif not any(res[1].startswith(v) for (v, (_, _, d)) in zip(o.valid_for, o.txs) if v is not None and
                         (o.get('asked') is None or int.from_bytes(d[8:10] if tr == 'tcp' else d[2:4], 'big') == o['asked'])):
                # (startswith: a stream transport may deliver the answer with trailing bytes of a duplicate; C01's
                # classifier decides whether that is well-formed - here only: whose answer is it)
                out.append(('C01', 'delivered-frame-answers-this-request', f'request {i + 1} returned a frame that answers none of its transmissions', i))
        # failures are InverterErrors, callbacks stay clean
        if res[0] == 'exc' and 'InverterError' not in res[3]:
            out.append(('C09', 'only-InverterError', res[1], i))
        if any('Exception in callback' in m or 'Fatal' in m for m in o.unhandled):
            out.append(('C09', 'no-unhandled-callback-exception', o.unhandled[0][:60], i))
        # transports
        if o.max_open > 1 or o.open_after > 1:
            out.append(('C10', 'at-most-one', f'{max(o.max_open, o.open_after)} transports open', i))
        if not ka and o.open_after != 0:
            out.append(('C10', 'keepalive-off:closed-after-request', f'{o.open_after} open after request {i + 1}', i))
    return out


def _labels(cfg, choices, nreq):
    c = Ctx(choices)
    run_session(cfg, c, nreq, fp=False)
    return [list(x) for x in c.labels]


def _job(j):
    cfg, nreq, devs, props = j[:4]
    root = tuple(j[4]) if len(j) > 4 else ()
    st = Stats()
    vio = {}

    def run(ctx):
        return run_session(cfg, ctx, nreq)

    def on_exec(ctx, obs):
        st.note(ctx, tuple((o.result[0], o.result[1] if o.result[0] == 'exc' else 'data', len(o.txs)) for o in obs))
        for prop, clause, cause, i in monitors(cfg, obs):
            if prop in props:
                vio.setdefault((prop, clause, i > 0), []).append((ctx.choices, cause, i))
        if len(st.samples) < 1 and sum(1 for c in ctx.choices if c) >= 2:
            st.samples.append(dict(cfg=cfg, requests=[dict(script=o.letters, result=str(o.result[:2]), tx=[round(t, 6) for t, _, _ in o.txs]) for o in obs]))
    # a non-default choice inside the root prefix is one of the allowed deviations
    explore(run, deviations=devs - sum(1 for c in root if c), depth=nreq * (cfg['R'] + 2) + nreq - len(root),
            on_exec=on_exec, root_prefix=root)
    out = []
    for (prop, clause, later), lst in vio.items():
        lst.sort(key=lambda x: (sum(1 for c in x[0] if c), len(x[0])))
        choices, cause, i = lst[0]
        obs = run_session(cfg, Ctx(choices), nreq, fp=False)
        again = [m for m in monitors(cfg, obs) if m[0] == prop and m[1] == clause]
        scripts = [o.letters for o in obs]
        before = sorted({x for sc in scripts[:i] for x in sc if x != 'valid'})
        own = sorted({x for x in (scripts[i] if i < len(scripts) else []) if x != 'valid'})
        key = f"session:{clause}/{cfg['transport']}/ka={int(cfg['ka'])}" + ('/neighbour' if cfg.get('neighbour') else '') + \
              ('/chained' if cfg.get('chained') else '') + \
              f"/{'+'.join(own) or 'valid'}" + \
              (f"/after:{'+'.join(before) or 'valid'}" if i else '')
        if not again:
            key += '/order-dependent'
        out.append(dict(prop=prop, key=key, clause=clause, n=len(lst),
                        replay=dict(part='session', cfg=cfg, nreq=nreq, choices=list(choices), labels=_labels(cfg, choices, nreq)),
                        detail=dict(cause=cause, request_index=i, scripts=scripts,
                                    results=[str(o.result[:3])[:80] for o in obs])))
    st.violations = out
    return st


def explore_sessions(tier, seed, props, light=False):
    """Run the session exploration for the configurations of the tier; -> Stats with the violations of `props`.
    light=True keeps the quick-tier bounds also in the thorough tier (used by the checks for which the session
    explorer is an additional stage, not the main exploration)."""
    if light:
        tier = 'quick'
    jobs = []
    for tr in ('udp', 'tcp'):
        for ka in (False, True):
            for R in ((1, 2) if tier == 'thorough' else (1,)):
                cfg = dict(transport=tr, ka=ka, T=1, R=R)
                if tier == 'thorough':
                    # (TCP connect outcomes {ok, refused, hang} are a choice point in the jobs bounded by 2 deviations)
                    jobs.append((dict(cfg, tcp_connect=False), 2, 4 if R == 1 else 3, props))
                    jobs.append((dict(cfg, tcp_connect=R != 1), 3, 3 if R == 1 else 2, props))
                    if R == 1:
                        jobs.append((cfg, 3, 2, props))
                else:
                    jobs.append((cfg, 3, 2, props))
                if R == 1:
                    jobs.append((dict(cfg, neighbour=True), 2, 2, props))
                    jobs.append((dict(cfg, chained=True), 2 if tier != 'thorough' else 3, 2 if tier != 'thorough' else 3, props))
                    jobs.append((dict(cfg, chained=True, R=0), 2, 2, props))
    if tier != 'thorough' and not light:
        # one level deeper for two requests (a fourth-round finding needed it): 3 deviations
        for tr in ('udp', 'tcp'):
            for ka in (False, True):
                # (datagram connect outcomes stay a choice point in the 2-deviation jobs above; here they are fixed to 'ok')
                jobs.append((dict(transport=tr, ka=ka, T=1, R=1, udp_connect=False, tcp_connect=False), 2, 3, props))
    # split the larger jobs by the answer to the very first transmission (the subtrees are independent executions)
    split = []
    for j in jobs:
        if j[2] >= 3:
            probe = Ctx([])
            run_session(j[0], probe, j[1], fp=False)
            nl = probe.trace[0][1]        # number of options at the very first choice point of this configuration
            split += [j + ((i,),) for i in range(nl)]
        else:
            split.append(j)
    jobs = split
    k = seed % len(jobs)
    jobs = jobs[k:] + jobs[:k]
    total = Stats()
    for st in pmap(_job, jobs):
        total.merge(st)
    return total


def replay(r):
    from .explore import LabelCtx
    ctx = LabelCtx([tuple(x) for x in r['labels']]) if r.get('labels') else Ctx(r['choices'])
    obs = run_session(r['cfg'], ctx, r['nreq'], fp=False)
    return dict(requests=[dict(script=o.letters, result=str(o.result[:3])[:100], tx=[t for t, _, _ in o.txs], done=o.t1) for o in obs],
                violations=[m for m in monitors(r['cfg'], obs)])
