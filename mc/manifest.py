"""Regenerates /verif/MANIFEST.json from the table below:  /venv/bin/python -m mc.manifest"""
from __future__ import annotations

import importlib
import json
import os

ROOT = os.path.dirname(os.path.dirname(os.path.abspath(__file__)))
PY = '/venv/bin/python'

# id -> (category, technique, level text, level note, design ref)
CHECKS = {
    'C01': ('exploration',
            'bounded-exhaustive enumeration of byte strings against an independent classifier of the statement',
            'Every prefix and single-bit flip of every canonical frame (all counts 1..125 in the thorough tier), a full '
            'field-grammar product (header x unit x function x byte count x bytes present x checksum variant x '
            'trailing; echoed register/value variants; AA55 length/type/checksum variants) and all short strings over '
            'the constants the validators compare against are fed to the real validators; acceptance implies the '
            'independent classifier calls the string a well-formed answer, and only documented outcomes occur. '
            'Representatives of each invalid class are also served through the real transports, on fresh objects and after an '
            'earlier well-answered request on the same object (same / other typed command, raw command with the same / other bytes). Session histories include TCP connect outcomes {ok, refused, hang}; a delivered frame must answer the command the caller issued. Exception answers of every code to write / write-multi; commands built by one protocol object with colliding arguments; frames with stray bytes in front / head missing; untyped AA55 commands.',
            'Trusted: mc/wire.classify_response (written from the statement).  Exhaustive over the stated finite '
            'domain, not over all byte strings; the argument why the grammar reaches every position the validators '
            'read is in DESIGN.md.',
            'DESIGN.md section 3, C01'),
    'C02': ('exploration',
            'bounded-exhaustive enumeration of conforming frames built by an independent codec',
            'All conforming frames over count 1..125 x fill 0..255 (x all unit addresses for counts 1/125, x trailing '
            'bytes on RTU), all 65536 registers x boundary values and all 65536 values x boundary registers for '
            'write echoes, AA55 payload length 0..255 x fill 0..255 per response type must make the real validator '
            'return True; representatives go through the real transports and response_data() must equal the payload; a '
            'conforming frame must also be accepted after an earlier request lost the remainder of a fragmented answer. Every public call against healthy conforming inverter models of all families must succeed (no conforming answer refused); session histories incl. chained requests: a first transmission answered by a conforming frame needs no second one. Healthy-inverter stage: every public call with keep-alive on/off, in one loop and in one event loop per call. Payloads containing the byte strings the transports look for, at every position, through the real transports.',
            'Trusted: frame builders of mc/wire.py.  Uniform and walking-one payloads only (the validators do not read '
            'payload bytes except through the checksum).',
            'DESIGN.md section 3, C02'),
    'C03': ('exploration',
            'bounded-exhaustive enumeration of request arguments, strict independent parser; full cycle of the tx counter',
            'Requests built by the real command classes for per-dimension exhaustive argument grids are parsed back '
            'by a strict independent parser and must decode to exactly the intended operation; the reachable state '
            'space of the Modbus/TCP transaction counter (65534 states and the wrap) is walked completely from the '
            'initial and from near-wrap states; a silent TCP peer must see pairwise different ids on retransmissions; requests '
            'built through read_command / write_command / write_multi_command of 8 coexisting protocol objects (udp, tcp x '
            '4 addresses), interleaved, decode to the address and arguments of the call that built them. Every command kind (three framings, raw caller frames) is sent through both transports: the bytes on the wire are the command\'s request. Transaction ids and the unit address on the wire do not follow what the answers carry; mixed overlapping public calls; boundary arguments through the protocol factories.',
            'Trusted: strict parsers of mc/wire.py.  Grids are per-dimension exhaustive, not the full cartesian product.',
            'DESIGN.md section 3, C03'),
    'C04': ('model_checking',
            'stateless exhaustive exploration of fault scripts on the real protocol objects over a modelled kernel',
            'Every fault script over the 20-letter per-transmission alphabet (x TCP connect outcomes) up to depth '
            'retries+1 is executed on the real UdpInverterProtocol/TcpInverterProtocol running on the real CPython '
            'selector loop and transports; a monitor checks termination, the transmission bound, the completion '
            'bound and the exact silent-peer timing on every execution; the same exploration is repeated from non-initial '
            'states (after a success, a delayed rejection, exhausted retries, fragments, a late answer on the same '
            'object, and after EVERY single-letter earlier request of the alphabet, with and without draining what it left in '
            'flight), and the thorough tier replays 74 traces on real loopback sockets to bind the kernel model to '
            'reality.  This is a coverage statement over all orderings the alphabet can produce, which example tests '
            'cannot give. TCP configurations with timeouts longer than the 5 s connect bound (T = 8, 6.5; 30 thorough) x connect outcomes. Earlier requests that lost their transmission and could not reconnect (refused / unreachable / hang); the socket model validates TCP keep-alive options.',
            'Trusted: kernel model (mc/kernel.py: sockets, selector, virtual clock), CPython 3.12.1 asyncio, the '
            'independent codec mc/wire.py.  Bounded by the alphabet and by depth R+1 (deviation bound for R=3).',
            'DESIGN.md section 3, C04'),
    'C05': ('model_checking',
            'explicit-state BFS over request-outcome histories (fingerprint de-duplication) + complete entry-point grid',
            'Breadth-first search over histories of whole requests (success, success after k timeouts, exhausted, '
            'rejected, transport errors, invalid answers, idle gaps, close(), new event loop), each rebuilt on fresh '
            'real protocol objects on the real selector loop; after every history a probe request to a silent peer '
            'must show exactly retries+1 identical transmissions spaced exactly one timeout and fail one timeout '
            'after the last.  connect()/discover()/search_inverters() are run for every family, port and '
            '(timeout, retries) of a grid against a silent kernel and a kernel that answers only the first request; '
            'every request they issue must show the configured budget; ordered pairs of entry-point calls with different '
            '(timeout, retries) in one process state are judged call by call. Histories with lost transmission + failed reconnect; discovery answered by every family\'s serial.',
            'Trusted: kernel model, CPython 3.12.1 asyncio, request boundaries observed by wrapping '
            'ProtocolCommand.execute from the harness.  Bounded by history depth (2 quick / 3 thorough); the '
            'evidence reports in how many configurations the state fixpoint was reached below the bound.',
            'DESIGN.md section 3, C05'),
    'C06': ('model_checking',
            'stateless exhaustive exploration of caller start offsets x per-transmission answers with 2-4 real tasks',
            'Two to four asyncio tasks call read_sensor() on one real ET object; every combination of start offsets '
            '{0, 0.3T, T, T+eps, 1.3T} and per-transmission answers {prompt, drop, delayed, two fragments} (all '
            'within the proviso of the property) is executed for N=2 (N=3 in the thorough tier; deviation-bounded '
            'beyond).  The monitor checks mutual exclusion on the wire against the peer-side record of outstanding '
            'transmissions, that each caller gets its own tag, deadlock freedom and the loop exception handler; the callers '
            'are also started right after an earlier request on the same object (rejected late, fragmented, garbage, exhausted) '
            'and ask for blocks of different length (1/2/4 registers), so that their validators differ.',
            'Trusted: kernel model, CPython 3.12.1 asyncio (Lock fairness, task wake-up order are the real ones).',
            'DESIGN.md section 3, C06'),
    'C07': ('model_checking',
            'exhaustive enumeration of split points/delays/second pieces, each executed on the real transports',
            'For every framing, read count, split point from the minimal header to len-1, delay of the second piece '
            'and keep-alive setting the split answer is served through the real datagram/stream transports and '
            'must be reassembled exactly with one transmission.  Negative second pieces (every bit flip for small '
            'counts, +-1 byte, other block, garbage) and left-over-fragment scenarios over several transmissions '
            'are checked against an oracle that only accepts well-formed frames (independent classifier) made of '
            'data received for the final transmission; cross-request scenarios (a fragment left by an earlier request that ended '
            'with an exception frame, a timeout or a late remainder), a second protocol object active between the two '
            'pieces, and other callers queueing on the same object while the fragments arrive are included. Three-datagram negatives; fragmented answers in successive event loops; split Modbus/TCP answers carrying another transaction id.',
            'Trusted: kernel model (stream transport coalesces simultaneous pieces as the real one does), mc/wire.py. '
            'Two fragments only; second-piece alphabet as listed in the evidence.',
            'DESIGN.md section 3, C07'),
    'C08': ('model_checking',
            'exhaustive enumeration of exception codes x commands x retry positions on the real protocol objects',
            'All 256 exception codes x read/write/write-multi x RTU/MBAP are fed to the real validators and, as the '
            'answer to transmission k+1 after k silent timeouts for every k<=R, to the real protocol objects: the '
            'request must fail with RequestRejectedException carrying the reason text of the Modbus specification, '
            'at the arrival time of the frame, with no further transmission - also when earlier requests (successes, delayed '
            'rejections, fragments, garbage) precede it on the same object; ET callers are run against a device refusing '
            'blocks with code 2 versus other codes (only code 2 may switch a capability off). Two protocol objects with overlapping requests; histories in which the same exception frame is received twice; chained requests. Typed request after a raw request with the same bytes; Modbus/TCP exception frames with an unreliable length field.',
            'Trusted: reason table in mc/wire.py (written from the Modbus spec), kernel model.',
            'DESIGN.md section 3, C08'),
    'C09': ('model_checking',
            'exhaustive fault-script exploration through the public API + BFS over failure histories + byte-class products',
            '(a) every script over the C04 alphabet extended with OS-level errors (send errors, late ICMP/RST after '
            'completion) to depth retries+1 is run through public calls of ET/DT/ES objects; every raised exception '
            'must be an InverterError (RequestFailed/RequestRejected for Inverter methods) and the loop exception '
            'handler must stay silent.  (b) BFS with fingerprint de-duplication over success/failure histories up '
            'to length 8 checks consecutive_failures_count against a reference counter.  (c) identification '
            'payloads built from byte classes in every text field go through connect()/discover().  (d) two or three '
            'overlapping callers on one inverter object x outcomes x start offsets: the count must follow completion order. Inverter.send_command() as an entry point; event-loop changes inside histories; DT polls with an unanswered optional request (count kept per request); identification texts that parse as version numbers.',
            'Trusted: kernel model, CPython 3.12.1 asyncio.  A rejected request is neither success nor failure for '
            'the counter (both readings accepted).',
            'DESIGN.md section 3, C09'),
    'C10': ('model_checking',
            'explicit-state BFS over operation histories with a transport-count invariant evaluated in every state',
            'Breadth-first search over histories of requests (with fault scripts incl. FIN/RST/ICMP/connect '
            'failures), close(), event-loop changes and idle periods on one real protocol object; the invariant '
            '(open transports <= 1; none open after a request with keep-alive off or after close(); same socket '
            'reused by consecutive successes with keep-alive on) is evaluated at every transmission, connect and '
            'operation boundary, and every history ends with a healthy request that must succeed with one '
            'transmission; at descriptor level, after garbage collection every open socket must belong to an open transport. History letters: keep-alive toggled between requests, previous loop left open (idle); chained requests. Overlapping callers (C06\'s harness: start offsets x per-transmission letters) are judged for the same clauses. A second object used first in every event loop; overlapping callers again in the next loop; close() raising is an observation.',
            'Trusted: kernel model; transports are observed through is_closing() of the real transport objects the '
            'loop created.  Bounded by history depth 3 (quick) / 4 (thorough).',
            'DESIGN.md section 3, C10'),
    'C11': ('exploration',
            'bounded-exhaustive enumeration of register contents through the real decoders',
            'For every sensor of every table the contents of its own registers are enumerated (exhaustively per 16-bit '
            'field for eco-mode/schedule groups, per byte for timestamps, all 65536 values for 2-byte fields in the '
            'thorough tier) and decoded through Inverter._map_response; whole-block sentinel fills go through both '
            'Modbus framings; ES answers of every announced length 0..255 go through the real API on the real '
            'transport.  No exception other than ValueError may escape, every id must be present, contents the '
            'reference decoder calls uninterpretable must be None and must not disturb other values. Polls of configured objects whose register contents change from poll to poll (interpretable / uninterpretable). One settings register refused, every register in turn (ET).',
            'Trusted: reference notion of "uninterpretable" in mc/refdec.py.  Exhaustive over the stated per-field '
            'domains, justified by the non-interference check of C12.',
            'DESIGN.md section 3, C11'),
    'C12': ('exploration',
            'bounded-exhaustive per-field enumeration against independent reference decoders + perturbation of every other register',
            'Every sensor with own registers of every table of ET/DT/ES is decoded for all contents of its 2-byte field '
            '(each half of 4-byte fields, per-byte/per-word for larger groups) embedded in seed-selected blocks at three '
            'block start addresses and both Modbus framings (Modbus/TCP also with an unreliable MBAP length field: byte count only / 0) and compared with a reference decoder written per type from '
            'the documentation; every other byte of the block is then perturbed and the value must not change; whole tables with '
            'uniform contents are decoded in one process in table order and reverse order (state shared between sensors).  The '
            'register map itself (id -> type, address, scale, unit) is compared with a pinned copy. End to end: read_runtime_data() / read_sensor() / read_setting() results of configured objects (every model class) equal the documented reading of the device model\'s registers - with debug logging on and off, with a neighbour object of another model class, and while other calls on the same object are pending; the reference decoders agree with the 1310 (sensor, value) pairs the repository tests assert on recorded responses. API session explorer: the poll after every explored history is compared value by value with the fetched registers; two consumers reading the same item at once. Ids shared by two sensors; every id of a result judged, values must have been fetched by this poll; neighbouring registers holding every combination of small values.',
            'Trusted: mc/refdec.py, the pinned register map mc/data/address_map.json (taken from the tables at the pinned '
            'commit; it stands in for the vendor register documentation).',
            'DESIGN.md section 3, C12'),
    'C13': ('exploration',
            'bounded-exhaustive enumeration of code words / operand grids over structurally discovered sensor pairs',
            'Every (code, label) pair, 4-byte and 2+2-byte bitmap and every derived sensor (sums, products, house '
            'consumption, grid direction) found in the tables is evaluated through Inverter._map_response for all 65536 '
            'code words (boundary-grid products for formulas) and compared with its definition over the raw values of the '
            'same result; which documented label table each label sensor uses is pinned; the same relations are evaluated '
            'inside every read_runtime_data() result of configured inverter objects (every tag class x rated powers x '
            'firmware) polled over a grid of the power words and their neighbours. The relations are also evaluated inside read_runtime_data() results of configured objects (with neighbour objects), and every formula with the other registers of the block holding uniform small codes. API session explorer: the relations are checked on the poll after every explored history. Label/code pairs found structurally; API stage over Modbus/TCP and keep-alive; small values in the registers of the other blocks.',
            'Trusted: formulas written from the table comments / property text in mc/checks/c13.py, pinned label tables '
            'mc/data/labels.json.  One genuine defect is recorded as a known finding (EnumBitmap22).',
            'DESIGN.md section 3, C13'),
    'C14': ('model_checking',
            'complete enumeration of the finite configuration space with instrumented reads on the real decoder',
            'For every model configuration (serial tags x rated power x every subset of refused optional blocks x battery) '
            'read_runtime_data() runs against the device model while every ProtocolResponse.read is observed '
            '(position, requested, returned); every read must return exactly the bytes requested.  The same is computed '
            'statically (documented sensor span versus the window of the request that fetched it) and both must agree; over '
            'tcp the device model also answers with unreliable MBAP length fields (byte count, 0, 6, +7). Second model detection on the same object (failing, partly lost, repeated). API session explorer (poll after every history); one request of a later poll rejected with codes 1/4/6 at every position; two overlapping polls with the second started after every request position of the first. Single reads before/after a poll on inverters that refuse only block reads; firmware version words swept; every register at a boundary word.',
            'Trusted: device model answers with exact-length frames; documented type sizes of mc/refdec.py.  Two sensors '
            'of the MPPT block are recorded as known findings.',
            'DESIGN.md section 3, C14'),
    'C15': ('model_checking',
            'complete enumeration of the finite configuration space against a register-file device model',
            'Every model tag (one per predicate class in the quick tier) x rated power class x every subset of refused '
            'optional blocks x battery present/absent x three consecutive calls, over UDP and a reduced product over TCP: '
            'read_runtime_data() must succeed by the second call, its keys must equal the ids of sensors() right after '
            'the call, fetched blocks must be present and refused blocks absent; the device also checks that every '
            'request parses strictly and that no write function is sent. With an unchanged device every returning call reports the same ids. Differential clause: sensors of blocks the inverter serves stay present when other blocks are refused (same model refusing nothing). Model classes pinned by serial tag (mc/data/model_tags.json); refusal of exact block reads (every 1- and 2-subset); firmware version words and battery-mode values swept.',
            'Trusted: device model mc/devsim.py (refused ranges answer exception 2).',
            'DESIGN.md section 3, C15'),
    'C16': ('model_checking',
            'BFS over capability-changing histories + sweep over every sensor id against a static register file',
            'For representative models of every predicate class and several register-file fills, after every history of '
            'runtime reads, single reads and device changes (battery appears/disappears, blocks become refused) up to the '
            'depth bound, read_sensor(id) is called for every id of sensors() and compared with the bulk read of the '
            'unchanged registers; a listed id that the bulk read reports must never be unknown to read_sensor. Histories include device changes no poll has noticed yet and changing register contents between polls. Registers becoming healthy after being undecodable; another object of the family (other transport) reads every id first.',
            'Trusted: device model; register file static between single and bulk read.  Sensors without a single-read '
            'path (Calculated, EnumCalculated, EnumBitmap22) are recorded as known findings.',
            'DESIGN.md section 3, C16'),
    'C17': ('model_checking',
            'exhaustive enumeration of setting values against a register-file device model with write-log / register diff',
            'Every setting of ET (eco v1 / v2 / 745), DT (single / three phase) and the register-addressed ES settings is '
            'written and read back through the real API on UDP-RTU, Modbus/TCP and AA55 for every value of its encodable '
            'domain (full domain for one setting per type in the thorough tier, boundary values for all); the device '
            'model\'s write log and register-file diff must show exactly one write of the right function to exactly the '
            'setting\'s registers carrying the reference encoding, every other register (including the other half of a '
            'shared register) unchanged, and the read-back must equal the value; one setting per type is also written with '
            'keep-alive on/off, a slow inverter (latency up to 0.9 timeout) and one request answered with an exception. The identical write repeated; two overlapping writes; writes after a read whose answer lost its tail (every head length). Inverters that store another value and echo it; a latency spike on one request (Modbus/TCP); two objects writing at once (C20\'s harness).',
            'Trusted: device model, reference encoders of mc/refdec.py.  Sentinel encodings (0xFFFF..) are outside the domain.',
            'DESIGN.md section 3, C17'),
    'C18': ('model_checking',
            'BFS over read-only call sequences + exhaustive integer windows round every setter guard, device-side request log',
            'Breadth-first search over sequences of the monitoring API (15 calls, depth 2 quick / 3 thorough, state '
            'de-duplication) for ET/DT/ES configurations covering capability fallbacks, eco-mode register contents and '
            'work modes, plus connect()/discover(): the device model must see only read functions.  Every integer '
            'argument in wide windows round each setter guard and near-miss setting ids must transmit no write (and '
            'raise ValueError where documented); in-range arguments are checked to produce writes (vacuity guard); over '
            'Modbus/TCP with one retry, [setter, monitoring call] with every connection attempt refused once. Ids no longer listed by settings() must not be writable; invalid calls after every legal setter and monitoring call; raw register ids over the whole range; connect refusal between setter and reader. Keyword as well as positional arguments; arguments that wrap into range when cut to 8/16/32 bits; monitoring calls on a silent inverter.',
            'Trusted: device model request log (strict parser).',
            'DESIGN.md section 3, C18'),
    'C19': ('model_checking',
            'exhaustive encoder enumeration + BFS over mode-change sequences against the device model',
            'Encoder level: power 1..100 x SoC 0..100 x every schedule type x 745 flag for charge/discharge, decoded by '
            'the reference decoder.  End to end: every mode of get_operation_modes(True) x (power, SoC) boundary grid x '
            'every prior content of eco group 1 (all schedule types, undecodable) x ET {v1, v2, no peak shaving, 745} and '
            'ES {arm 6, arm 14, v2}, plus every ordered pair of modes; getter must return the mode set, group 1 must '
            'decode to the request and groups 2-4 be off; export limit and DoD round trips; every setter x every request '
            'position answered with a Modbus exception (codes 1/3/4/6): a setter that reports success agrees with its getter. Getter before setter on an inverter in ECO mode; the same setter call again after a foreign change. Another object reads its group between setter and getter; the setters do not disturb each other; groups 2..4 holding enabled schedules of other kinds.',
            'Trusted: device model links listed in the evidence; interpretation (i)-(iv) of DESIGN.md C19.',
            'DESIGN.md section 3, C19'),
    'C20': ('model_checking',
            'exhaustive request-level interleaving exploration of two inverter objects with a solo-vs-interleaved differential oracle',
            'Two inverter objects (same and different families/platforms/phase types, devices that refuse settings or fragment '
            'their answers) talk to two device models with different '
            'register contents on one real event loop; whenever both wait for an answer the explorer chooses whose answer '
            'is delivered first (deviation-bounded from FIFO).  Each object must send the same requests and return the same '
            'results as when its calls run alone, and every value handed to the caller is re-snapshotted at the end and '
            'must be unchanged. The two inverters of a pair report a valid and an undecodable clock. Pairs of inverters whose registers hold equal raw values (different decoders meet equal words). Long-lived pairs with one event loop per step; equal serial numbers; never-programmed groups next to a 745 inverter.',
            'Trusted: device models, gate in mc/checks/c20.py (answers are released only when every task is blocked). '
            'Shared stateful schedule sensors are recorded as known findings.',
            'DESIGN.md section 3, C20'),
}

NOT_BUILT = 'check not built yet (planned, see DESIGN.md section 3)'


def build():
    props = [json.loads(l) for l in open(os.path.join(ROOT, 'properties.jsonl'))]
    checks = []
    na = []
    for p in props:
        pid = p['id']
        if pid in CHECKS and os.path.exists(os.path.join(ROOT, 'mc', 'checks', pid.lower() + '.py')):
            cat, tech, text, note, ref = CHECKS[pid]
            checks.append(dict(
                property_id=pid,
                quick_cmd=f'{PY} -m mc.cli {pid} --tier quick',
                thorough_cmd=f'{PY} -m mc.cli {pid} --tier thorough',
                evidence_file=f'/verif/evidence/{pid}.json',
                replay_cmd_template=f'{PY} -m mc.replay {{path}}',
                engine='mc',
                level_claimed=dict(category=cat, text=text, design_ref=ref),
                level_note=note,
                technique=tech))
        else:
            na.append(dict(property_id=pid, reason=NOT_BUILT))
    man = dict(
        version=1,
        setup_cmd=f'{PY} -m mc.selftest',
        hooks=dict(guard='GOODWE_VERIF', enable='no source hooks are needed: goodwe is imported from /repo (GOODWE_SRC) '
                   'and driven from outside through asyncio\'s running-loop mechanism',
                   baseline_off_cmd='cd /repo && /venv/bin/python -m pytest -ra -q -p no:cacheprovider --timeout=900 '
                                    '--continue-on-collection-errors',
                   source_commits=[], add_only=True),
        engines=[dict(name='mc', path='/verif/mc', serves_properties=[c['property_id'] for c in checks],
                      kind_free_text='hand-written explicit-state / stateless explorer for asyncio code: real CPython '
                                     'selector loop + transports over a modelled kernel (Engine K), choice-sequence '
                                     'explorer (Engine X), bounded-exhaustive input enumerators (Engine E)')],
        checks=checks,
        notes='All checks import goodwe from /repo\'s working tree at run time (nothing is installed or cached). '
              'Besides its own exploration every protocol check (C04-C10) runs the session explorer mc/sessions.py '
              '(histories of requests on one object under the full fault alphabet) and every API-level check (C15-C19) '
              'the API session explorer mc/api_sessions.py (BFS over histories of public calls and device changes, '
              'then probes); module/class level state of goodwe is restored between explored executions. '
              'VERIF_SEED rotates enumeration order / embedding contexts only; alphabets, bounds and oracles do not '
              'depend on it.  Known findings: /verif/KNOWN_FINDINGS.txt.',
        not_applicable=na)
    with open(os.path.join(ROOT, 'MANIFEST.json'), 'w') as f:
        json.dump(man, f, indent=1)
    return man


if __name__ == '__main__':
    m = build()
    print('checks:', [c['property_id'] for c in m['checks']], 'not claimed:', len(m['not_applicable']))
