"""python -m mc.cli C04 [--tier quick|thorough]

exit 0: property held on everything explored (known findings are printed as KNOWN-FINDING lines)
exit 1: a violation not listed in KNOWN_FINDINGS.txt  (line: VIOLATION property=<id> replay=<path>)
exit 2: harness error (non-determinism, replay divergence, internal assertion) - never a verdict
"""
from __future__ import annotations

import argparse
import importlib
import os
import sys
import time
import traceback


def main(argv=None):
    ap = argparse.ArgumentParser()
    ap.add_argument('prop')
    ap.add_argument('--tier', default=os.environ.get('VERIF_TIER') or 'quick', choices=['quick', 'thorough'])
    args = ap.parse_args(argv)
    os.environ.setdefault('PYTHONHASHSEED', '0')
    from . import world, evidence
    from .findings import Report
    prop = args.prop.upper()
    mod = importlib.import_module(f'mc.checks.{prop.lower()}')
    t0 = time.time()
    rep = Report(prop)
    try:
        res = mod.run(args.tier, world.seed(), rep)
        from . import peer as _peer
        if _peer.HARNESS_BUGS:
            raise RuntimeError(f'harness bug: {_peer.HARNESS_BUGS[0]}')
    except (Exception, SystemExit):
        traceback.print_exc()
        print(f'HARNESS-ERROR property={prop}', flush=True)
        return 2
    # violations found once (by a deep exploration) and repaired since: replayed on every run, whatever the tier reaches
    nreg = 0
    try:
        import glob
        import json
        rdir = os.path.join(os.path.dirname(os.path.dirname(os.path.abspath(__file__))), 'regressions')
        for f in sorted(glob.glob(os.path.join(rdir, f'{prop}-*.json'))):
            doc = json.load(open(f))
            out = mod.replay(doc['replay'])
            nreg += 1
            token = doc.get('key', '').split('/')[0].replace('api-session:', '').replace('session:', '')
            hits = [v for v in (out.get('violations') or []) if token in json.dumps(v, default=repr)]
            if hits:
                rep.add(doc['key'], doc.get('clause', token), doc['replay'],
                        dict(cause=f'recorded violation {os.path.basename(f)} is back', now=str(hits[0])[:200]))
    except Exception:
        traceback.print_exc()
        print(f'HARNESS-ERROR property={prop}', flush=True)
        return 2
    new, known, _ = rep.finish()
    wall = time.time() - t0
    cov = res['coverage']
    cov.setdefault('known_finding_keys', known)
    cov.setdefault('violation_keys', new)
    cov.setdefault('recorded_violations_replayed', nreg)
    path = evidence.write(prop, args.tier, world.seed(), res['level'], cov, wall, new, res.get('assumptions', ()))
    print(f'{prop} tier={args.tier} seed={world.seed()} src={world.SRC} wall={wall:.1f}s '
          f'violations={new} known={known} evidence={path}', flush=True)
    for k in ('evaluations', 'states', 'transitions', 'executions', 'distinct_nontrivial'):
        if k in cov:
            print(f'  {k}={cov[k]}', end='')
    print(flush=True)
    return 1 if new else 0


if __name__ == '__main__':
    sys.exit(main())
