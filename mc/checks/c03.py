"""C03 - requests on the wire are canonical, decodable frames carrying the arguments (DESIGN 3, C03)."""
from __future__ import annotations

import struct

from .. import world, wire
from ..explore import pmap, h
from ..kernel import KLoop
from ..peer import PlanPeer, D0
from ..proto import make_protocol, _exec

gp = world.gp
BREGS = (0, 1, 0x00FF, 0x0100, 0x7FFF, 0x8000, 0xFFFE, 0xFFFF, 35100, 47511)
BVALS = (-32768, -32767, -256, -255, -1, 0, 1, 255, 256, 32767)
BCOUNTS = (1, 2, 0x21, 0x7D, 125)


def build(ctor, *a):
    try:
        c = ctor(*a)
        return c.request_bytes(), None
    except BaseException as e:  # noqa: BLE001
        return None, f'{type(e).__name__}: {e}'


def chk(vio, key, got, want, args, req):
    if got != want:
        vio.setdefault(key, []).append(dict(key=key, clause='request decodes to the intended operation',
                                            replay=dict(part='E', ctor=args[0], args=list(args[1:])),
                                            detail=dict(request=req.hex() if req else None, decoded=got, intended=want)))


def parse(framing, req):
    try:
        d = {'rtu': wire.parse_rtu_request, 'tcp': wire.parse_tcp_request, 'aa55': wire.parse_aa55_request}[framing](req)
    except wire.BadRequest as e:
        return f'unparsable: {e}'
    d.pop('framing')
    d.pop('tx', None)
    return {k: (v.hex() if isinstance(v, bytes) else v) for k, v in d.items()}


CTORS = {
    'rtu-read': ('rtu', lambda: gp.ModbusRtuReadCommand), 'rtu-write': ('rtu', lambda: gp.ModbusRtuWriteCommand),
    'rtu-multi': ('rtu', lambda: gp.ModbusRtuWriteMultiCommand),
    'tcp-read': ('tcp', lambda: gp.ModbusTcpReadCommand), 'tcp-write': ('tcp', lambda: gp.ModbusTcpWriteCommand),
    'tcp-multi': ('tcp', lambda: gp.ModbusTcpWriteMultiCommand),
    'aa55-read': ('aa55', lambda: gp.Aa55ReadCommand), 'aa55-write': ('aa55', lambda: gp.Aa55WriteCommand),
    'aa55-multi': ('aa55', lambda: gp.Aa55WriteMultiCommand),
}


def intended(name, a):
    k = name.split('-')[1]
    if name.startswith('aa55'):
        if k == 'read':
            return dict(cmd='011a', payload=struct.pack('>HB', a[0], a[1]).hex())
        if k == 'write':
            return dict(cmd='0239', payload=(struct.pack('>HB', a[0], 1) + struct.pack('>H', a[1] & 0xFFFF)).hex())
        return dict(cmd='0239', payload=(struct.pack('>HB', a[0], len(a[1])) + a[1]).hex())
    if k == 'read':
        return dict(unit=a[0], fn=3, reg=a[1], count=a[2])
    if k == 'write':
        return dict(unit=a[0], fn=6, reg=a[1], value=a[2] & 0xFFFF, data=struct.pack('>H', a[2] & 0xFFFF).hex())
    return dict(unit=a[0], fn=16, reg=a[1], count=len(a[2]) // 2, data=a[2].hex())


def one(vio, name, a):
    framing, ctor = CTORS[name]
    req, err = build(ctor(), *a)
    want = intended(name, a)
    if err:
        cls = 'negative-value' if (name.endswith('write') and a[-1] < 0) else 'in-domain'
        key = f'builds/{name}/{cls}'
        vio.setdefault(key, []).append(dict(key=key, clause='building a request for in-domain arguments must not raise',
                                            replay=dict(part='E', ctor=name, args=[x.hex() if isinstance(x, bytes) else x for x in a]),
                                            detail=dict(error=err)))
        return
    got = parse(framing, req)
    if got != want:
        sub = 'negative-value' if (name.endswith('write') and a[-1] < 0) else 'value'
        key = f'decodes/{name}/{sub}'
        vio.setdefault(key, []).append(dict(key=key, clause='request decodes to the intended operation',
                                            replay=dict(part='E', ctor=name, args=[x.hex() if isinstance(x, bytes) else x for x in a]),
                                            detail=dict(request=req.hex(), decoded=got, intended=want)))


def job(j):
    name, mode = j
    vio = {}
    n = 0
    if name.endswith('read') and not name.startswith('aa55'):
        if mode == 0:
            for unit in range(256):
                for reg in BREGS:
                    for c in BCOUNTS:
                        one(vio, name, (unit, reg, c)); n += 1
        elif mode == 1:
            for reg in range(65536):
                for unit in (0xF7, 0x7F):
                    for c in (1, 125):
                        one(vio, name, (unit, reg, c)); n += 1
        else:
            for c in range(1, 126):
                for reg in BREGS:
                    one(vio, name, (0xF7, reg, c)); n += 1
    elif name.endswith('write') and not name.startswith('aa55'):
        if mode == 0:
            for v in range(-32768, 32768):
                for reg in (0, 0x8000, 47511):
                    one(vio, name, (0xF7, reg, v)); n += 1
        else:
            for reg in range(65536):
                for v in (-32768, -1, 0, 1, 32767):
                    one(vio, name, (0xF7, reg, v)); n += 1
            for unit in range(256):
                one(vio, name, (unit, 47511, -2)); n += 1
    elif name.endswith('multi') and not name.startswith('aa55'):
        for ln in range(2, 248, 2):
            for content in (bytes(ln), b'\xff' * ln, bytes(i & 0xFF for i in range(ln))):
                for reg in (0, 0x8000, 0xFFFF, 47515):
                    one(vio, name, (0xF7, reg, content)); n += 1
    elif name == 'aa55-read':
        for off in range(65536):
            for c in (1, 4, 125, 255):
                one(vio, name, (off, c)); n += 1
    elif name == 'aa55-write':
        if mode == 0:
            for reg in range(65536):
                for v in (-32768, -1, 0, 1, 32767):
                    one(vio, name, (reg, v)); n += 1
        else:
            for v in range(-32768, 32768):
                for reg in (0, 0x0560, 0x0700, 0xFFFF):
                    one(vio, name, (reg, v)); n += 1
    elif name == 'aa55-multi':
        for reg in (0, 0x0701, 0x8000, 0xFFFF):
            for ln in (8,):  # the stated domain: 8-byte eco-mode groups
                for content in (bytes(ln), b'\xff' * ln, bytes((7 * i) & 0xFF for i in range(ln)), bytes.fromhex('0000173bffecff7f') * (ln // 8)):
                    one(vio, name, (reg, content)); n += 1
    res = []
    for key, lst in vio.items():
        v = lst[0]
        v['n'] = len(lst)
        res.append(v)
    return n, res


# ------------------------------------------------------------------ transaction id: complete state space of the counter

TX_PATTERNS = (('read',), ('read', 'write'), ('write', 'multi', 'read'), ('read', 'read', 'write', 'multi', 'multi'))


def tx_cycle(start, pattern=('read',)):
    """More than 65535 consecutive Modbus/TCP transmissions (command kinds cycling through `pattern`, built by one
    protocol object): every id non-zero and different from its predecessor's, every frame parses, the rest of the MBAP
    header of a kind never changes.  The state is what the wire shows (the id); `start` presets the library's counter
    near the wrap where it is reachable as a module attribute (otherwise the walk simply starts from the initial state)."""
    world.reset(tx=start)
    p = make_protocol('tcp', 1, 0, False)
    cmds = dict(read=p.read_command(0x891C, 3), write=p.write_command(47510, 7), multi=p.write_multi_command(47515, bytes(8)))
    base = {}
    prev = None
    vio = []
    n = 0
    states = set()
    while n < 66000 + len(pattern):
        kind = pattern[n % len(pattern)]
        try:
            req = cmds[kind].request_bytes()
        except BaseException as e:  # noqa: BLE001
            n += 1
            vio.append(('tx-frame-builds', f'transmission {n} ({kind}): request_bytes() raised {type(e).__name__}: {e}'))
            if len(vio) > 5:
                break
            continue
        n += 1
        tx = struct.unpack('>H', req[:2])[0]
        states.add(tx)
        base.setdefault(kind, req[2:])
        if tx == 0:
            vio.append(('tx-id-nonzero', f'transmission {n}: id 0'))
        if prev is not None and tx == prev:
            vio.append(('tx-id-changes', f'transmission {n} ({kind} after {pattern[(n - 2) % len(pattern)]}): id {tx} repeated'))
        if req[2:] != base[kind]:
            vio.append(('mbap-otherwise-unchanged', f'transmission {n}'))
        try:
            wire.parse_tcp_request(req)
        except wire.BadRequest as e:
            vio.append(('tx-frame-parses', str(e)))
        prev = tx
        if len(vio) > 5:
            break
    world.reset()
    return n, len(states), vio


def tx_histories():
    """Every history of <= 5 transmissions over the three command kinds from a fresh process state."""
    import itertools
    vio = []
    n = 0
    for k in range(2, 6):
        for hist in itertools.product(('read', 'write', 'multi'), repeat=k):
            world.reset()
            p = make_protocol('tcp', 1, 0, False)
            ids = []
            for kind in hist:
                cmd = p.read_command(0x891C, 3) if kind == 'read' else p.write_command(47510, 7) if kind == 'write' else \
                    p.write_multi_command(47515, bytes(8))
                ids.append(struct.unpack('>H', cmd.request_bytes()[:2])[0])
                n += 1
            if 0 in ids or any(a == b for a, b in zip(ids, ids[1:])):
                vio.append(('tx-id-changes', f'{list(hist)}: ids {ids}'))
    return n, vio


def run_silent_tcp(R):
    world.reset()
    peer = PlanPeer(lambda k, req, now: [])
    loop = KLoop(peer)
    p = make_protocol('tcp', 1, R, False)
    loop.run(_exec(p.read_command(0x891C, 3), p))
    ids = [d[:2] for _, _, d, _ in peer.sent]
    vio = []
    if len(set(ids)) != len(ids) or len(ids) != R + 1:
        vio.append(('retransmissions-have-distinct-ids', f'{[i.hex() for i in ids]}'))
    if any(i == b'\0\0' for i in ids):
        vio.append(('tx-id-nonzero', 'retransmission with id 0'))
    return vio, len(ids)


def run_outcome_history(R, ka, hist):
    """A history of requests on one Modbus/TCP protocol object, each ending in one of the ways a request can end (answered,
    refused with an exception frame, never answered = retries exhausted, first transmission lost then answered): however
    the earlier requests ended, every transmission carries a non-zero id different from the transmission before it."""
    world.reset()
    seen = []
    cur = {'how': None, 'k': 0}

    def plan(k, req, now):
        try:
            rq = wire.parse_tcp_request(req)
        except wire.BadRequest:
            return []
        seen.append(rq['tx'])
        cur['k'] += 1
        how = cur['how']
        if how == 'silent' or (how == 'lost-then-answered' and cur['k'] == 1):
            return []
        if how == 'refused':
            return [(D0, ('data', wire.mbap(req[:2], rq['unit'], bytes([rq['fn'] | 0x80, 2]))))]
        pdu = bytes([3, 2 * rq['count']]) + bytes(2 * rq['count'])
        return [(D0, ('data', wire.mbap(req[:2], rq['unit'], pdu)))]
    peer = PlanPeer(plan)
    loop = KLoop(peer)
    p = make_protocol('tcp', 1, R, ka)
    for i, how in enumerate(hist):
        cur['how'], cur['k'] = how, 0
        loop.run(_exec(p.read_command(0x891C + i, 2), p))
    vio = []
    if any(a == b for a, b in zip(seen, seen[1:])):
        vio.append(('tx-id-changes/after-ended-requests', f'requests ending {list(hist)} (retries {R}, keep-alive {ka}): ids on the wire {seen}'))
    if 0 in seen:
        vio.append(('tx-id-nonzero/after-ended-requests', f'requests ending {list(hist)}: ids {seen}'))
    return vio, len(seen)


OUTCOMES = ('answered', 'silent', 'refused', 'lost-then-answered')


MIXED_CALLS = (('read_runtime_data', ()), ('read_setting', ('grid_export_limit',)), ('write_setting', ('grid_export_limit', 77)),
               ('read_sensor', ('vpv1',)), ('write_setting', ('eco_mode_2_switch', -1)))


TX_POLICIES = ('echo', 'const-1', 'zero', 'previous', 'plus-1', 'ffff', 'ffff-then-echo')


def run_tx_policy(policy, ka, exc=0):
    """The ids the library puts on the wire do not depend on what the inverter puts into the transaction-id field of its
    answers (the library does not look at it: GoodWe firmware is known to fill the MBAP header unreliably).  Twelve
    requests of alternating kinds, every third transmission lost (retransmission), answers carrying ids by `policy`."""
    world.reset()
    seen = []

    def plan(k, req, now):
        try:
            rq = wire.parse_tcp_request(req)
        except wire.BadRequest:
            return []
        seen.append(rq['tx'])
        if k % 3 == 2:
            return []
        fn = rq['fn']
        if exc and k % 3 == 1:
            # every other answered transmission is refused with exception code `exc` (whatever the library does next -
            # give up or transmit again - the next transmission carries another id)
            return [(D0, ('data', wire.mbap(req[:2], rq['unit'], bytes([fn | 0x80, exc]))))]
        pdu = bytes([3, 2 * rq['count']]) + bytes(2 * rq['count']) if fn == 3 else \
            bytes([6]) + struct.pack('>HH', rq['reg'], rq['value']) if fn == 6 else bytes([16]) + struct.pack('>HH', rq['reg'], rq['count'])
        tx = {'echo': rq['tx'], 'const-1': 1, 'zero': 0, 'previous': seen[-2] if len(seen) > 1 else 0x7777, 'plus-1': (rq['tx'] + 1) & 0xFFFF,
              'ffff': 0xFFFF, 'ffff-then-echo': 0xFFFF if k < 4 else rq['tx']}[policy]
        return [(D0, ('data', wire.mbap(struct.pack('>H', tx), rq['unit'], pdu)))]
    peer = PlanPeer(plan)
    loop = KLoop(peer)
    p = make_protocol('tcp', 1, 1, ka)
    outcomes = []
    for i in range(12):
        cmd = (p.read_command(0x891C + i, 2), p.write_command(47510, i), p.write_multi_command(47515, bytes(4)))[i % 3]
        st, res = loop.run(_exec(cmd, p))
        outcomes.append(res[0] if st != 'hang' else 'hang')
    vio = []
    for a, b in zip(seen, seen[1:]):
        if a == b:
            vio.append(('tx-id-changes/answers-carry-other-ids', f'two consecutive transmissions carry id {a}: ids {seen[:12]} (answers: {policy})'))
            break
    if any(x == 0 for x in seen):
        vio.append(('tx-id-nonzero/answers-carry-other-ids', f'id 0 on the wire: {seen[:12]} (answers: {policy})'))
    return vio, len(seen), outcomes


def job_inverter_address(j):
    """Every communication address 1..255 given to the INVERTER classes (ET / DT / ES constructors): each request the
    object transmits - identification, a poll, a setting read, a write - carries that address (0 stands for the family's
    default).  The simulated inverter listens on that address; requests carrying another one are logged, not answered."""
    from ..configs import make_rig
    fam, addrs = j
    out = []
    n = 0
    for addr in addrs:
        world.reset()
        cfg = dict(family=fam, tag={'ET': 'ETU', 'DT': 'DTU', 'ES': 'ESU'}[fam], power=5000, refused=(), battery_mode=2, comm_addr=addr)
        r = make_rig(cfg, 'udp' if addr % 2 else 'tcp' if fam != 'ES' else 'udp', fill=lambda a: 1)
        inv = r.inv
        r.call(inv.read_device_info)
        r.call(inv.read_runtime_data)
        r.call(inv.read_setting, 'eco_mode_1' if fam != 'DT' else 'grid_export_limit')
        if fam == 'ES':
            r.call(inv.read_setting, 'modbus-47000')      # (the ES family speaks Modbus for raw registers and newer settings only)
            r.call(inv.write_setting, 'modbus-47001', 1)
        r.call(inv.write_setting, 'grid_export_limit' if fam != 'ES' else 'eco_mode_1_switch', 1 if fam != 'ES' else 0)
        want = addr or (0x7F if fam == 'DT' else 0xF7)
        seen = [q['unit'] for q in r.dev.log if 'unit' in q]
        n += len(seen)
        if not seen:
            out.append((f'unit-is-the-configured-address/{fam}/inverter-constructor', addr, 'no Modbus request was transmitted'))
        elif any(u != want for u in seen):
            out.append((f'unit-is-the-configured-address/{fam}/inverter-constructor', addr,
                        f'{fam}(comm_addr={addr:#x}): requests carry address {sorted(set(seen))} instead of {want:#x}'))
    return n, out


def job_entry_address(j):
    """The package's entry points - connect() with and without a family / an address, discover() - against a simulated
    inverter of each family: the requests that reach the inverter of the family found carry the configured address, or the
    family's default (0xF7 for ET and ES, 0x7F for DT) when none was configured; the object that comes back goes on using it."""
    from ..configs import make_rig
    fam, how, addr, port = j
    world.reset()
    g = world.goodwe
    cfg = dict(family=fam, tag={'ET': 'ETU', 'DT': 'DTU', 'ES': 'ESU'}[fam], power=5000, refused=(), battery_mode=2, comm_addr=addr)
    r = make_rig(cfg, 'udp' if port == 8899 else 'tcp', fill=lambda a: 1)

    async def main():
        try:
            if how == 'discover':
                inv = await g.discover('10.0.0.2', port, 1, 0)
            elif how == 'connect':
                inv = await g.connect('10.0.0.2', port, None, addr, 1, 0)
            else:
                inv = await g.connect('10.0.0.2', port, fam, addr, 1, 0)
            n0 = len(r.dev.log)
            await inv.read_runtime_data()
            return type(inv).__name__, n0
        except g.InverterError as e:
            return 'InverterError', str(e)[:60]
    r.loop.kern.tx_cap = 4000
    st, res = r.loop.run(main())
    want = addr or (0x7F if fam == 'DT' else 0xF7)
    out = []
    own = [q['unit'] for q in r.dev.log if 'unit' in q]
    name = f'{how}(port={port}' + (f', comm_addr={addr:#x}' if addr else '') + ')'
    if st != 'done' or res[0] != fam:
        out.append((f'unit-is-the-configured-address/{fam}/entry-point:{how}', f'{name} against a {fam} inverter listening on {want:#x}: {str(res)[:80]} '
                                                                               f'(addresses seen in Modbus requests: {sorted(set(own))})'))
    elif fam != 'ES' and any(u != want for u in own[res[1]:]):
        out.append((f'unit-is-the-configured-address/{fam}/entry-point:{how}', f'{name}: the poll of the object that came back carries '
                                                                               f'{sorted(set(own[res[1]:]))} instead of {want:#x}'))
    return len(r.dev.log), out


def run_unit_policy(tr, ka, unit, answers_from):
    """The communication address in the requests is the configured one, whatever address the answers come from (another
    unit answering, AA55-protocol answers 'AA55 7F C0 ..' between Modbus requests on an ES).  Every command is built by the
    protocol object's factory right before it is sent."""
    world.reset()

    def plan(k, req, now):
        try:
            rq = wire.parse_request(req) if tr == 'udp' else wire.parse_tcp_request(req)
        except wire.BadRequest:
            return []
        if rq.get('framing') == 'aa55':
            return [(D0, ('data', wire.aa55_resp('0186', bytes(6))))]
        fn = rq['fn']
        pdu = bytes([3, 2 * rq['count']]) + bytes(2 * rq['count']) if fn == 3 else \
            bytes([6]) + struct.pack('>HH', rq['reg'], rq['value']) if fn == 6 else bytes([16]) + struct.pack('>HH', rq['reg'], rq['count'])
        src = rq['unit'] if answers_from == 'same' else answers_from
        return [(D0, ('data', wire.mbap(req[:2], src, pdu) if tr == 'tcp' else wire.rtu_frame(src, pdu)))]
    peer = PlanPeer(plan)
    loop = KLoop(peer)
    p = make_protocol(tr, 1, 0, ka, unit=unit)
    builders = [lambda: gp.Aa55ProtocolCommand('010600', '0186'), lambda: p.read_command(0x891C, 2), lambda: p.write_command(47510, 3),
                lambda: p.write_multi_command(47515, bytes(4)), lambda: gp.Aa55ProtocolCommand('010600', '0186'), lambda: p.read_command(100, 1),
                lambda: p.write_command(100, 1), lambda: p.read_command(0x891C, 2)]
    if tr == 'tcp':
        builders = [b for i, b in enumerate(builders) if i not in (0, 4)]
    for b in builders:
        loop.run(_exec(b(), p))
    vio = []
    for _, _, d, _ in peer.sent:
        if d[:2] == b'\xaa\x55':
            continue
        u = d[6] if tr == 'tcp' else d[0]
        if u != unit:
            vio.append(('unit-address-is-the-configured-one', f'request {d.hex()[:24]}.. carries address {u:#x}, configured {unit:#x} '
                                                               f'({tr}, answers come from {answers_from if answers_from == "same" else hex(answers_from)})'))
            break
    return vio, len(peer.sent)


def run_overlap_mixed(transport, ka, steps, calls):
    """Different public calls on ONE object at the same time: what reaches the inverter is, request for request, what the
    same calls transmit when each is made alone (as a multiset: the order between callers is free) - no caller's request is
    replaced by another caller's, none is lost, none is sent twice."""
    import asyncio
    import collections
    from ..configs import make_rig
    cfg = dict(family='ET', tag='ETU', power=3000, refused=(), battery_mode=0)

    def sig(q):
        return (q.get('fn'), q.get('reg'), q.get('count'), bytes(q['data']).hex() if q.get('data') is not None else None)
    alone = collections.Counter()
    for name, args in calls:
        r = make_rig(cfg, transport, R=1, ka=ka)
        r.call(r.inv.read_device_info)
        l0 = len(r.dev.log)
        r.call(getattr(r.inv, name), *args)
        alone.update(sig(q) for q in r.dev.log[l0:])
    r = make_rig(cfg, transport, R=1, ka=ka)
    r.call(r.inv.read_device_info)
    l0 = len(r.dev.log)

    async def main():
        async def one(i, name, args):
            if i and steps:
                await asyncio.sleep(0.0005 * steps * i)
            try:
                await getattr(r.inv, name)(*args)
            except Exception:  # noqa: BLE001
                pass
        await asyncio.gather(*[one(i, n, a) for i, (n, a) in enumerate(calls)])
    r.loop.kern.ntx = 0
    r.loop.kern.tx_cap = 4000
    r.loop.run(main())
    together = collections.Counter(sig(q) for q in r.dev.log[l0:])
    vio = []
    if together != alone:
        extra = list((together - alone).elements())[:2]
        missing = list((alone - together).elements())[:2]
        vio.append(('decodes/overlapping-calls', f'{[c[0] for c in calls]} at once ({transport}, ka={int(ka)}): on the wire but intended by no caller {extra}; '
                                                 f'intended but never transmitted {missing}'))
    if r.dev.bad:
        vio.append(('parses/overlapping-calls', str(r.dev.bad[0][1])))
    return vio, len(r.dev.log) - l0


def run_overlap(ncallers, connect_latency_steps):
    """Several tasks call read_runtime_data() on ONE Modbus/TCP inverter object at the same time (they share the
    command objects the inverter builds once): every transmission on the wire carries a non-zero transaction id
    different from the previous transmission's."""
    import asyncio
    from ..configs import make_rig
    cfg = dict(family='ET', tag='ETU', power=3000, refused=(), battery_mode=0)
    r = make_rig(cfg, 'tcp', R=1)
    r.call(r.inv.read_device_info)
    n0 = len(r.dev.sent)

    async def main():
        async def one(i):
            if i and connect_latency_steps:
                await asyncio.sleep(0.0005 * connect_latency_steps)
            try:
                await r.inv.read_runtime_data()
            except Exception:  # noqa: BLE001
                pass
        await asyncio.gather(*[one(i) for i in range(ncallers)])
    r.loop.kern.ntx = 0
    r.loop.kern.tx_cap = 4000
    r.loop.run(main())
    ids = [d[:2] for _, _, d in r.dev.sent[n0:]]
    vio = []
    for a, b in zip(ids, ids[1:]):
        if a == b:
            vio.append(('tx-id-changes/overlapping-calls', f'two consecutive transmissions carry id {a.hex()} ({len(ids)} transmissions)'))
            break
    if any(i == b'\0\0' for i in ids):
        vio.append(('tx-id-nonzero/overlapping-calls', 'id 0 on the wire'))
    if r.dev.bad:
        vio.append(('tx-frame-parses/overlapping-calls', str(r.dev.bad[0][1])))
    return vio, len(ids)


def factory_stage(rep):
    """Requests built the way the library builds them - protocol.read_command / write_command / write_multi_command -
    by SEVERAL protocol objects with different communication addresses living in one process, in interleaved order and
    twice: every frame decodes to the address of the object that built it and to the arguments of that very call."""
    n = 0
    units = (0xF7, 0x7F, 0x11, 0x01)
    protos = [(kind, u, make_protocol(kind, 1, 0, False, unit=u)) for kind in ('udp', 'tcp') for u in units]
    calls = [('read', 0x891C, 4), ('read', 0x891C, 5), ('read', 47547, 6), ('write', 47510, 1234), ('write', 47510, -2),
             ('multi', 47515, bytes(range(8))), ('multi', 47515, bytes(range(8, 16)))] + \
            [('multi', 47000, bytes((7 * i + 1) & 0xFF for i in range(ln))) for ln in (2, 4, 6, 12, 244, 246)] + \
            [('read', 35100, c) for c in (1, 2, 124, 125)] + [('write', r, v) for r in (0, 65535) for v in (-32768, 0, 32767)]
    for rnd in range(2):
        order = protos if rnd == 0 else protos[::-1]
        for call in calls:
            for kind, u, p in order:
                cmd = p.read_command(call[1], call[2]) if call[0] == 'read' else \
                    p.write_command(call[1], call[2]) if call[0] == 'write' else p.write_multi_command(call[1], call[2])
                req = cmd.request_bytes()
                n += 1
                got = parse('tcp' if kind == 'tcp' else 'rtu', req)
                want = intended(('tcp-' if kind == 'tcp' else 'rtu-') + call[0], (u, call[1], call[2]))
                if got != want:
                    rep.add(f'decodes/{kind}-{call[0]}/built-by-protocol-objects', 'request decodes to the intended operation',
                            dict(part='factory'), dict(request=req.hex(), decoded=got, intended=want, unit=hex(u), round=rnd))
    return n


def wire_stage(rep):
    """What a command object says its request is, is what goes on the wire - on BOTH transports, for every kind of
    command the library can be asked to send: the three framings (an AA55 inverter may sit behind the TCP port, a Modbus
    RTU frame may be sent over it) and raw caller-supplied frames (Inverter.send_command).  Only the transaction id of a
    Modbus/TCP command may differ, and every frame parses under its own framing."""
    n = 0
    for tr in ('udp', 'tcp'):
        for ka in (False, True):
            world.reset()
            peer = PlanPeer(lambda k, req, now: [])
            loop = KLoop(peer)
            p = make_protocol(tr, 1, 0, ka)
            cmds = [('modbus-read', p.read_command(0x891C, 3)), ('modbus-write', p.write_command(47510, -2)),
                    ('modbus-multi', p.write_multi_command(47515, bytes(range(8)))),
                    ('rtu-read', gp.ModbusRtuReadCommand(0xF7, 0x891C, 3)), ('tcp-read', gp.ModbusTcpReadCommand(0xF7, 0x891C, 3)),
                    ('aa55', gp.Aa55ProtocolCommand('010600', '0186')), ('aa55-read', gp.Aa55ReadCommand(0x0700, 4)),
                    ('aa55-write', gp.Aa55WriteCommand(0x0560, 30)),
                    ('raw', gp.ProtocolCommand(bytes.fromhex('aa55c07f0102000241'), lambda x: True)),
                    ('raw-odd', gp.ProtocolCommand(bytes.fromhex('0102030405'), lambda x: True))]
            for name, cmd in cmds:
                n0 = len(peer.sent)
                loop.run(_exec(cmd, p))
                n += 1
                sent = [d for _, _, d, _ in peer.sent[n0:]]
                want = cmd.request
                istcp = type(cmd).__name__.startswith('ModbusTcp')
                bad = None
                if len(sent) != 1:
                    bad = f'{len(sent)} transmissions for one silent request with retries=0'
                elif (sent[0][2:] != want[2:]) if istcp else (sent[0] != want):
                    bad = f'on the wire {sent[0].hex()}, the command says {want.hex()}'
                elif not name.startswith('raw'):
                    try:
                        (wire.parse_tcp_request if istcp else wire.parse_aa55_request if name.startswith('aa55')
                         else wire.parse_rtu_request)(sent[0])
                    except wire.BadRequest as e:
                        bad = f'{sent[0].hex()}: {e}'
                if bad:
                    rep.add(f'wire-carries-the-command/{tr}/{name}', 'the transmitted bytes are the request of the command',
                            dict(part='wire'), dict(cause=bad, transport=tr, keep_alive=ka, command=name))
    return n


def run(tier, seed, rep):
    novl = factory_stage(rep) + wire_stage(rep)
    for nc in (2, 3):
        for steps in (0, 1, 3):
            vio, k = run_overlap(nc, steps)
            novl += k
            for clause, cause in vio:
                rep.add(clause, clause.split('/')[0], dict(part='overlap', callers=nc, steps=steps), dict(cause=cause))
    import itertools
    addr_jobs = [(fam, list(range(a, 256, 8))) for fam in ('ET', 'DT', 'ES') for a in range(8)]
    for k, res in pmap(job_inverter_address, addr_jobs):
        novl += k
        for key, addr, cause in res:
            rep.add(key, key.split('/')[0], dict(part='inverter-address', family=key.split('/')[1], addr=addr), dict(cause=cause, comm_addr=addr))
    entry_jobs = [(fam, how, addr, port) for fam in ('ET', 'DT', 'ES') for port in ((8899, 502) if fam != 'ES' else (8899,))
                  for how, addrs in (('discover', (0,)), ('connect', (0,)), ('connect-family', (0, 0x11, 0xFA)))
                  for addr in addrs if not (how == 'discover' and port == 502)]
    # (connect() WITHOUT a family but WITH an address is not in the list: it hands over to discover(), which has no address
    # parameter - the address is dropped and the family defaults are probed; noted in DESIGN section 6, not a C03 matter)
    for k, res in pmap(job_entry_address, entry_jobs):
        novl += k
        for key, cause in res:
            rep.add(key, key.split('/')[0], dict(part='entry-address', family=key.split('/')[1], how=key.split(':')[-1]), dict(cause=cause))
    for tr in ('udp', 'tcp'):
        for ka in (False, True):
            for unit in (0xF7, 0x7F, 0x11):
                for src in ('same', 0x7F, 0xF7, 0x01, 0xC0):
                    vio, k = run_unit_policy(tr, ka, unit, src)
                    novl += k
                    for clause, cause in vio:
                        rep.add(f'{clause}/{tr}/ka={int(ka)}', clause, dict(part='unit-policy', transport=tr, ka=ka, unit=unit, src=src), dict(cause=cause))
    for policy, exc in [(p_, 0) for p_ in TX_POLICIES] + [('echo', c) for c in (1, 2, 3, 4, 5, 6, 7, 8, 10, 11, 0x55)]:
        for ka in (False, True):
            vio, k, _ = run_tx_policy(policy, ka, exc)
            novl += k
            for clause, cause in vio:
                if exc:
                    clause = clause.replace('answers-carry-other-ids', 'requests-refused-with-an-exception-code')
                    cause += f' (exception code {exc})'
                rep.add(f'{clause}/ka={int(ka)}', clause.split('/')[0], dict(part='tx-policy', policy=policy, ka=ka, exc=exc), dict(cause=cause))
    for tr in ('udp', 'tcp'):
        for ka in (False, True):
            for steps in (0, 1, 3):
                for calls in list(itertools.combinations(MIXED_CALLS, 2)) + [MIXED_CALLS[:3], MIXED_CALLS[1:4]]:
                    vio, k = run_overlap_mixed(tr, ka, steps, calls)
                    novl += k
                    for clause, cause in vio:
                        rep.add(f'{clause}/{tr}/ka={int(ka)}', clause.split('/')[0],
                                dict(part='overlap-mixed', transport=tr, ka=ka, steps=steps, calls=[[c[0], list(c[1])] for c in calls]), dict(cause=cause))
    jobs = []
    for name in CTORS:
        if name.endswith('read') and not name.startswith('aa55'):
            jobs += [(name, 0), (name, 1), (name, 2)]
        elif name.endswith('write'):
            jobs += [(name, 0), (name, 1)]
        else:
            jobs.append((name, 0))
    if tier == 'quick':
        pass  # the whole enumeration costs a few seconds: both tiers run it completely
    k = seed % len(jobs)
    jobs = jobs[k:] + jobs[:k]
    total = 0
    for n, res in pmap(job, jobs):
        total += n
        rep.add_many(res)
    ntx = 0
    nstates = 0
    for start in (0, 0xFFFD, 0xFFFE, 0x7FFF):
        for pattern in (TX_PATTERNS if start in (0, 0xFFFD) else TX_PATTERNS[:2]):
            n, ns, vio = tx_cycle(start, pattern)
            ntx += n
            nstates = max(nstates, ns)
            for clause, cause in vio[:3]:
                rep.add((f'{clause}/from-state-{start:#x}' if start else f'{clause}/from-initial') +
                        ('' if pattern == ('read',) else '/mixed-kinds'), clause,
                        dict(part='tx', start=start, pattern=list(pattern)), dict(cause=cause))
    n, vio = tx_histories()
    ntx += n
    for clause, cause in vio[:1]:
        rep.add(f'{clause}/short-histories-of-mixed-kinds', clause, dict(part='txhist'), dict(cause=cause, cases=len(vio)))
    for R in (0, 1, 3):
        vio, n = run_silent_tcp(R)
        ntx += n
        for clause, cause in vio:
            rep.add(f'{clause}/silent-peer', clause, dict(part='silent', R=R), dict(cause=cause))
    import itertools
    nhist = 0
    for R in (0, 1, 2):
        for ka in (False, True):
            for k in (1, 2, 3):
                for hist in itertools.product(OUTCOMES, repeat=k):
                    vio, n = run_outcome_history(R, ka, hist)
                    ntx += n
                    nhist += 1
                    for clause, cause in vio:
                        rep.add(f'{clause}/retries={R}/last:{hist[-2] if k > 1 else "-"}', clause,
                                dict(part='outcomes', R=R, ka=ka, hist=list(hist)), dict(cause=cause))
    cov = dict(evaluations=total + ntx + novl, distinct_nontrivial=total, request_outcome_histories=nhist, overlapping_call_transmissions=novl,
               rule='every request is built by the real command classes and parsed back by the strict independent '
                    'parser (CRC recomputed bitwise, MBAP protocol id / length field, AA55 header / length byte / sum): '
                    'all unit addresses x boundary registers x boundary counts, all 65536 registers x {F7,7F} x {1,125}, '
                    'all counts 1..125, all 65536 signed values x boundary registers, all registers x boundary values, '
                    'every even multi-write length 2..246 x 3 contents x 4 registers, AA55 read/write/multi likewise; '
                    'every argument tuple is distinct, so distinct_nontrivial = number of requests built',
               transaction_counter=dict(transmissions=ntx, states_visited=nstates,
                                        starts=['initial', '0xFFFD', '0xFFFE', '0x7FFF'],
                                        kind_patterns=[list(x) for x in TX_PATTERNS], short_histories='3^2..3^5'),
               exhaustive=True,
               samples=[dict(ctor='rtu-write', args=[0xF7, 47511, -2],
                             request=gp.ModbusRtuWriteCommand(0xF7, 47511, -2).request.hex())])
    return dict(level='exploration', coverage=cov,
                assumptions=['strict parsers of mc/wire.py written from the Modbus / AA55 frame descriptions',
                             'end-to-end decoding of API flows is covered by the device-model checks (C15-C19), which '
                             'only answer requests the strict parser accepts'])


def replay(r):
    if r['part'] == 'E':
        a = [bytes.fromhex(x) if isinstance(x, str) else x for x in r['args']]
        vio = {}
        one(vio, r['ctor'], tuple(a))
        return dict(violations=[(k, v[0]['detail']) for k, v in vio.items()])
    if r['part'] == 'entry-address':
        out = []
        for fam, how, addr, port in [(r['family'], r['how'], a, p_) for a in (0, 0x11, 0xFA) for p_ in (8899, 502)]:
            if (how != 'connect-family' and addr) or (fam == 'ES' and port == 502) or (how == 'discover' and port == 502):
                continue
            out += job_entry_address((fam, how, addr, port))[1]
        return dict(violations=out)
    if r['part'] == 'inverter-address':
        k, res = job_inverter_address((r['family'], [r['addr']]))
        return dict(requests=k, violations=[(a, c) for a, _, c in res])
    if r['part'] == 'unit-policy':
        vio, k = run_unit_policy(r['transport'], r['ka'], r['unit'], r['src'])
        return dict(transmissions=k, violations=vio)
    if r['part'] == 'tx-policy':
        vio, k, oc = run_tx_policy(r['policy'], r['ka'], r.get('exc', 0))
        return dict(transmissions=k, outcomes=oc, violations=vio)
    if r['part'] == 'overlap-mixed':
        vio, k = run_overlap_mixed(r['transport'], r['ka'], r['steps'], tuple((c[0], tuple(c[1])) for c in r['calls']))
        return dict(requests=k, violations=vio)
    if r['part'] == 'wire':
        from ..findings import Report
        rp = Report('C03')
        wire_stage(rp)
        return dict(violations=sorted(rp.by_key))
    if r['part'] == 'factory':
        from ..findings import Report
        rp = Report('C03')
        factory_stage(rp)
        return dict(violations=sorted(rp.by_key))
    if r['part'] == 'overlap':
        vio, k = run_overlap(r['callers'], r['steps'])
        return dict(transmissions=k, violations=vio)
    if r['part'] == 'tx':
        n, ns, vio = tx_cycle(r['start'], tuple(r.get('pattern', ('read',))))
        return dict(transmissions=n, states=ns, violations=vio)
    if r['part'] == 'txhist':
        n, vio = tx_histories()
        return dict(transmissions=n, violations=vio[:5])
    if r['part'] == 'outcomes':
        vio, n = run_outcome_history(r['R'], r['ka'], tuple(r['hist']))
        return dict(transmissions=n, violations=vio)
    vio, n = run_silent_tcp(r['R'])
    return dict(transmissions=n, violations=vio)
