"""C09 - failures surface only as InverterError, with a correct consecutive-failure count (DESIGN 3, C09)."""
from __future__ import annotations

import collections
import itertools
import struct

from .. import world, wire
from ..explore import Ctx, Stats, explore, pmap, h, fingerprint
from ..kernel import KLoop
from ..peer import ScriptPeer, alphabet, CONNECT, D0, tag_payload
from ..proto import Session, HOST

g = world.goodwe
TOL = 1e-9
EXTRA_UDP = ['valid+icmp', 'senderr-perm']
EXTRA_TCP = ['valid+rst', 'senderr-pipe']

OPS = {
    'ET': ['read_sensor', 'read_setting', 'write_setting', 'read_device_info', 'read_runtime_data', 'send_command'],
    'DT': ['read_sensor', 'write_setting', 'read_device_info', 'read_runtime_data', 'send_command'],
    'ES': ['read_setting', 'write_setting', 'read_device_info', 'read_runtime_data', 'read_settings_data', 'send_command'],
}


def op_call(inv, op):
    if op == 'read_sensor':
        return lambda: inv.read_sensor('modbus-100')
    if op == 'read_setting':
        return lambda: inv.read_setting('modbus-100')
    if op == 'write_setting':
        return lambda: inv.write_setting('modbus-100', 5)
    if op == 'send_command':
        # the low-level public entry point: caller-supplied request bytes (those of a register read), default validator
        raw = bytes(inv._protocol.read_command(100, 1).request)
        return lambda: inv.send_command(raw)
    return getattr(inv, op)


def letters_for(tr):
    return alphabet(tr) + (EXTRA_UDP if tr == 'udp' else EXTRA_TCP)


def judge(obs, inverter_method=True):
    """-> list of (clause, cause)."""
    out = []
    r = obs.result
    if r[0] == 'hang':
        out.append(('terminates', r[1]))
    elif r[0] == 'exc':
        mro = r[3]
        if 'InverterError' not in mro:
            out.append(('only-InverterError', r[1]))
        elif inverter_method and r[1] not in ('RequestFailedException', 'RequestRejectedException'):
            out.append(('inverter-methods-raise-failed-or-rejected', r[1]))
    for msg, exn in obs.unhandled:
        if 'Exception in callback' in msg or 'Fatal' in msg or 'exception was never retrieved' not in msg:
            out.append(('no-unhandled-callback-exception', f'{msg[:60]} ({exn})'))
            break
    return out


def run_a(cfg, ctx, letters, conn):
    s = Session(cfg, ctx=ctx, family=cfg['family'], peer=ScriptPeer(cfg['transport'], cfg['T'], ctx, letters, conn))
    s.peer.ctx = ctx
    ctx.fp = lambda: fingerprint(s.loop, (s.p, s.inv))
    obs = s.call(op_call(s.inv, cfg['op']))
    ctx.fp = None
    s.peer.ctx = None
    s.peer.default_letter = 'drop'
    s.loop.settle(2.5 * cfg['T'])   # late ICMP / RST / stale timers after completion
    obs['unhandled'] = [(c.get('message', ''), type(c.get('exception')).__name__) for c in s.loop.unhandled]
    return obs


def job_a(j):
    cfg, depth, devs = j
    letters = cfg.get('letters') or letters_for(cfg['transport'])
    conn = CONNECT if cfg['transport'] == 'tcp' and cfg.get('conn') else ['ok']
    st = Stats()
    vio = {}

    def run(ctx):
        return run_a(cfg, ctx, letters, conn)

    def on_exec(ctx, obs):
        r = obs.result
        st.note(ctx, (r[0], r[1] if r[0] == 'exc' else 'value'))
        if len(st.samples) < 1 and sum(1 for c in ctx.choices if c) >= 2:
            st.samples.append(dict(cfg=cfg, script=obs.letters, result=[str(x)[:60] for x in r[:3]]))
        for clause, cause in judge(obs):
            vio.setdefault((clause, cause.split(' ')[0][:50]), []).append((ctx.choices, cause, obs.letters,
                                                                           [c[1] for c in obs.connects]))
    n, capped = explore(run, depth=depth, deviations=devs, on_exec=on_exec)
    out = []
    for (clause, c0), lst in vio.items():
        lst.sort(key=lambda x: (sum(1 for c in x[0] if c), len(x[0])))
        choices, cause, script, conns = lst[0]
        o2 = run_a(cfg, Ctx(choices), letters, conn)
        fl = sorted({x for x in script if x not in ('valid', 'drop')} | {x for x in conns if x != 'ok'})
        if not any(c == clause for c, _ in judge(o2)):
            fl = ['order-dependent']
            cause = f'{cause}; ' + 'failed during exploration but not on a fresh replay: the outcome depends on earlier executions in the same process (state outside the objects under test leaks between executions)'
        key = f"{clause}/{cfg['transport']}/ka={int(cfg['ka'])}/{'+'.join(fl) or 'drop'}/{c0}"
        out.append(dict(key=key, clause=clause, n=len(lst),
                        replay=dict(part='a', cfg=cfg, choices=choices, letters=letters, conn=conn),
                        detail=dict(cause=cause, script=script, connects=conns, op=cfg['op'], family=cfg['family'])))
    st.violations = out
    st.capped = capped
    return st


# ------------------------------------------------------------------ (b) consecutive failure counter

H_LETTERS = collections.OrderedDict([
    ('success', ['valid']),
    ('silent', None),            # drop * (R+1)
    ('garbage', None),           # garbage * (R+1)
    ('rejected', ['exc2']),
    ('errno', None),             # transport specific
    ('connect-error', None),     # the socket cannot be connected at all (UDP: ENETUNREACH at connect, TCP: refused)
    ('success-after-retry', ['drop', 'valid']),
    ('success:cmd', ['valid']),  # ... through Inverter.send_command() instead of read_sensor()
    ('silent:cmd', None),
    ('silent:x2', None),         # two calls at the same time (one waits for the other), neither is answered
    ('NEWLOOP', None),           # the calls so far ran in one asyncio.run(), the following ones run in the next
])


def h_script(cfg, name):
    R = cfg['R']
    name = name.split(':')[0]
    if name == 'silent':
        return ['drop'] * (R + 1)
    if name == 'garbage':
        return ['garbage'] * (R + 1) if cfg['transport'] == 'udp' else ['badsum']
    if name == 'errno':
        return ['icmp'] if cfg['transport'] == 'udp' else ['rst'] + ['drop'] * R
    return H_LETTERS[name]


def run_b(cfg, hist):
    s = Session(cfg, family='ET')
    model = 0       # failures since the last success
    amb = False     # a rejection happened since: both readings of the property accepted
    vio = []
    for name in hist:
        if name == 'NEWLOOP':
            s.newloop()
            continue
        if name == 'silent:x2':
            import asyncio
            s.peer.forced = ['drop'] * (2 * (cfg['R'] + 1))
            f1, f2 = op_call(s.inv, 'read_sensor'), op_call(s.inv, 'read_setting')

            async def two():
                return await asyncio.gather(f1(), f2(), return_exceptions=True)
            obs = s.call(two)
            s.peer.forced = []
            s.drain()
            for clause, cause in judge(obs):
                vio.append((clause, cause))
            if obs.result[0] == 'ok':
                counts = []
                for e in obs.result[1]:
                    if type(e).__name__ != 'RequestFailedException':
                        vio.append(('only-InverterError', f'one of two overlapping calls ended with {type(e).__name__}: {str(e)[:60]}'))
                    else:
                        counts.append(e.consecutive_failures_count)
                if len(counts) == 2 and sorted(counts) != [model + 1, model + 2] and not amb:
                    vio.append(('consecutive-failures-count', f'{sorted(counts)} reported by two overlapping calls, {model} failures before them'))
                model += 2
            continue
        s.peer.forced = h_script(cfg, name)
        if name == 'connect-error':
            s.peer.forced = []
            if cfg['transport'] == 'udp':
                s.peer.forced_udp_conn = ['netunreach'] * (cfg['R'] + 1)
            else:
                s.peer.forced_conn = ['refused'] * (cfg['R'] + 1)
        obs = s.call(op_call(s.inv, 'send_command' if name.endswith(':cmd') else 'read_sensor'))
        s.peer.forced_udp_conn = []
        s.peer.forced_conn = []
        s.peer.forced = []
        s.drain()
        r = obs.result
        for clause, cause in judge(obs):
            vio.append((clause, cause))
        if r[0] == 'ok':
            model, amb = 0, False
        elif r[0] == 'exc' and r[1] == 'RequestFailedException':
            model += 1
            got = r[4]
            if got != model and not amb:
                vio.append(('consecutive-failures-count', f'{got} reported, {model} failures since last success'))
        elif r[0] == 'exc' and r[1] == 'RequestRejectedException':
            # neither a success nor a failure: "does not reset" and "does not increment" are both accepted;
            # if the implementation resets on rejection, later counts are ambiguous until the next success
            if s.inv._consecutive_failures_count != model:
                amb = True
    return vio, s.fp(extra=(model, amb)), s


def run_b_dt(cfg, hist):
    """The count is kept per REQUEST: a DT poll whose optional meter request goes unanswered returns its running data
    (the call succeeds) - the unanswered request still is a failed request since the last successful one."""
    s = Session(cfg, family='DT')
    R = cfg['R']
    model = 0
    vio = []
    for name in hist:
        meter = getattr(s.inv, '_has_meter', True)
        if name == 'poll':
            s.peer.forced = ['valid', 'valid']
            obs = s.call(s.inv.read_runtime_data)
            model = 0 if obs.result[0] == 'ok' else model
        elif name == 'poll:meter-silent':
            s.peer.forced = ['valid'] + ['drop'] * (R + 1)
            obs = s.call(s.inv.read_runtime_data)
            if obs.result[0] == 'ok':
                model = 1 if meter else 0
        elif name == 'read-ok':
            s.peer.forced = ['valid']
            obs = s.call(op_call(s.inv, 'read_sensor'))
            model = 0 if obs.result[0] == 'ok' else model
        else:
            s.peer.forced = ['drop'] * (R + 1)
            obs = s.call(op_call(s.inv, 'read_sensor'))
            r = obs.result
            if r[0] == 'exc' and r[1] == 'RequestFailedException':
                model += 1
                if r[4] != model:
                    vio.append(('consecutive-failures-count', f'{r[4]} reported, {model} failed requests since the last successful request '
                                                              f'(history {hist})'))
        s.peer.forced = []
        s.drain()
        for clause, cause in judge(obs):
            vio.append((clause, cause))
    return vio


def job_b_dt(j):
    cfg, depth = j
    letters = ('poll', 'poll:meter-silent', 'read-ok', 'read-fail')
    out = {}
    n = 0
    for d in range(1, depth + 1):
        for hist in itertools.product(letters, repeat=d):
            n += 1
            for clause, cause in run_b_dt(cfg, list(hist)):
                key = f"{clause}/{cfg['transport']}/ka={int(cfg['ka'])}/DT-requests-inside-a-poll"
                out.setdefault(key, []).append(dict(key=key, clause=clause, replay=dict(part='b-dt', cfg=cfg, history=list(hist)),
                                                    detail=dict(cause=cause, history=list(hist))))
    res = []
    for key, lst in out.items():
        lst.sort(key=lambda v: len(v['replay']['history']))
        lst[0]['n'] = len(lst)
        res.append(lst[0])
    return n, res


def job_b(j):
    cfg, depth = j
    names = list(H_LETTERS)
    st = Stats()
    seen = set()
    frontier = collections.deque([[]])
    vio = {}
    fix = True
    while frontier:
        hist = frontier.popleft()
        v, f, s = run_b(cfg, hist)
        st.executions += 1
        for clause, cause in v:
            vio.setdefault(clause, []).append((hist, cause))
        if f in seen:
            continue
        seen.add(f)
        st.states.add(f)
        if len(hist) >= depth:
            fix = False
            continue
        for nm in names:
            st.edges.add((f, nm))
            frontier.append(hist + [nm])
    out = []
    for clause, lst in vio.items():
        hist, cause = lst[0]
        key = f"{clause}/{cfg['transport']}/ka={int(cfg['ka'])}/history:{'+'.join(sorted(set(hist)))}"
        out.append(dict(key=key, clause=clause, n=len(lst), replay=dict(part='b', cfg=cfg, history=hist),
                        detail=dict(cause=cause, history=hist)))
    if st.executions and not st.samples:
        st.samples.append(dict(cfg=cfg, example_history=names[:3], states=len(seen)))
    st.violations = out
    return st, fix


# ------------------------------------------------------------------ (d) overlapping calls on one inverter object

def run_d(cfg, history, outcomes, offsets):
    """Sequential history, then len(outcomes) callers overlapping on the same Inverter object (the protocol lock
    serialises their requests).  The count reported by every failure must equal the number of failures since the last
    success in COMPLETION order."""
    import asyncio
    s = Session(cfg, family='ET')
    for name in history:
        s.peer.forced = h_script(cfg, name)
        s.call(op_call(s.inv, 'read_sensor'))
        s.peer.forced = []
        s.drain()
    base = s.inv._consecutive_failures_count
    script = []
    for o in outcomes:
        script += h_script(cfg, o)
    s.peer.forced = script
    done = []

    async def caller(i):
        if offsets[i]:
            await asyncio.sleep(offsets[i])
        try:
            await s.inv.read_sensor(f'modbus-{100 + i}')
            done.append((i, 'ok', None))
        except BaseException as e:  # noqa: BLE001
            done.append((i, type(e).__name__, getattr(e, 'consecutive_failures_count', None)))

    async def main():
        await asyncio.gather(*[caller(i) for i in range(len(outcomes))])
    s.kern.ntx = 0
    st, _ = s.loop.run(main())
    vio = []
    if st == 'hang':
        return [('terminates', 'overlapping calls hang')]
    model = base
    for i, kind, cnt in done:
        if kind == 'ok':
            model = 0
        elif kind == 'RequestFailedException':
            model += 1
            if cnt != model:
                vio.append(('consecutive-failures-count/overlapping-calls',
                            f'caller {i} (completion order {[d[0] for d in done]}): reported {cnt}, {model} failures since last success'))
        elif kind != 'RequestRejectedException':
            vio.append(('only-InverterError', kind))
    return vio


def job_d(j):
    cfg, = j
    out = {}
    n = 0
    import itertools
    kinds = ('success', 'silent', 'garbage', 'errno')
    for history in ((), ('silent',), ('silent', 'silent'), ('success',)):
        for k in (2, 3):
            for outcomes in itertools.product(kinds, repeat=k):
                for offsets in ((0,) * k, (0, .3) + (0,) * (k - 2), (0, 1.2) + (.4,) * (k - 2)):
                    vio = run_d(cfg, history, outcomes, offsets)
                    n += 1
                    for clause, cause in vio:
                        key = f"{clause}/{cfg['transport']}/ka={int(cfg['ka'])}"
                        out.setdefault(key, []).append(dict(key=key, clause=clause,
                                                            replay=dict(part='d', cfg=cfg, history=list(history),
                                                                        outcomes=list(outcomes), offsets=list(offsets)),
                                                            detail=dict(cause=cause, history=list(history), outcomes=list(outcomes))))
    res = []
    for key, lst in out.items():
        lst.sort(key=lambda v: (len(v['replay']['history']), len(v['replay']['outcomes'])))
        lst[0]['n'] = len(lst)
        res.append(lst[0])
    return n, res


# ------------------------------------------------------------------ (c) identification payloads

CLASSES = collections.OrderedDict([
    ('ascii', lambda n: (b'GW10K-ETU1234567' * 2)[:n]),
    ('nul', lambda n: b'\x00' * n),
    ('ctrl', lambda n: bytes((i % 31) + 1 for i in range(n))),
    ('high', lambda n: bytes(0x80 + (i * 37) % 128 for i in range(n))),
    ('mixed', lambda n: (b'A\x00\xffB\x01\x80' * 4)[:n]),
    ('space', lambda n: b' ' * n),
    ('utf16', lambda n: ('GW5K-ETé' * 3).encode('utf-16be')[:n]),
    # texts that parse as version numbers, and texts shorter than their field (padded with blanks / NULs, or cut)
    ('digits', lambda n: (b'1414E02041' * 2)[:n]),
    ('pad-space', lambda n: (b'1010202041' * 2)[:n - 1] + b' '),
    ('pad-nul', lambda n: (b'1010202041' * 2)[:n - 1] + b'\x00'),
    ('one-char', lambda n: b'7' + b' ' * (n - 1)),
])


class InfoPeer(ScriptPeer):
    """Answers every request validly; identification blocks come from `blocks`."""

    def __init__(self, transport, T, aa55_info=None, blocks=None):
        super().__init__(transport, T)
        self.aa55_info = aa55_info
        self.blocks = blocks or {}
        self.default_letter = 'valid'
        self.payload_fn = self._pl

    def _pl(self, reg, count):
        if reg in self.blocks:
            return self.blocks[reg][:2 * count].ljust(2 * count, b'\0')
        if reg == 2 and self.aa55_info is not None and count == 40:
            return self.aa55_info
        return b'\x00\x01' * count


def es_info(fields):
    b = bytearray(77)
    b[0:5], b[5:15], b[31:47], b[51:63] = fields
    return bytes(b)


def et_info(fields):
    b = bytearray(66)
    struct.pack_into('>HHH', b, 0, 1, 10000, 1)
    b[6:22], b[22:32], b[42:54], b[54:66] = fields
    return bytes(b)


def dt_info(fields):
    b = bytearray(80)
    b[6:22], b[22:32] = fields[0], fields[1]
    return bytes(b)


def id_cases(tier):
    names = list(CLASSES)
    for combo in itertools.product(names, repeat=4):
        if tier != 'thorough' and sum(1 for c in combo if c != 'ascii') > 2:
            continue
        yield ('ES', combo)
        yield ('ET', combo)
        yield ('discover', combo)
    for combo in itertools.product(names, repeat=2):
        yield ('DT', combo + ('ascii', 'ascii'))


def run_c(case):
    world.reset()
    kind, combo = case
    vio = []
    if kind in ('ES', 'discover'):
        f = [CLASSES[c](n) for c, n in zip(combo, (5, 10, 16, 12))]
        if kind == 'discover' and combo[2] == 'ascii':
            f[2] = b'95048ESU000W0000'
        peer = InfoPeer('udp', 1, aa55_info=es_info(f))
    elif kind == 'ET':
        f = [CLASSES[c](n) for c, n in zip(combo, (16, 10, 12, 12))]
        peer = InfoPeer('udp', 1, blocks={35000: et_info(f)})
    else:
        f = [CLASSES[c](n) for c, n in zip(combo, (16, 10))]
        peer = InfoPeer('udp', 1, blocks={30001: dt_info(f), 0x9CED: CLASSES[combo[1]](16)})
    loop = KLoop(peer)

    async def main():
        try:
            if kind == 'discover':
                inv = await g.discover(HOST, 8899, 1, 0)
                return ('ok', type(inv).__name__)
            inv = await g.connect(HOST, 8899, kind, 0, 1, 0)
            return ('ok', (inv.model_name, inv.serial_number))
        except BaseException as e:  # noqa: BLE001
            return ('exc', type(e).__name__, getattr(e, 'message', None), [c.__name__ for c in type(e).__mro__])
    st, res = loop.run(main())
    if st == 'hang':
        vio.append(('terminates', str(res)))
    elif res[0] == 'exc' and 'InverterError' not in res[3]:
        vio.append(('only-InverterError', res[1]))
    elif res[0] == 'ok' and kind != 'discover':
        if not all(isinstance(x, str) for x in res[1]):
            vio.append(('identification-is-text', repr(res[1])))
    return vio, res


def job_c(cases):
    out = []
    oc = {}
    for case in cases:
        v, res = run_c(case)
        o = (case[0], res[0], res[1] if res[0] == 'exc' else 'ok')
        oc[o] = oc.get(o, 0) + 1
        for clause, cause in v:
            nonascii = '+'.join(f'{n}:{c}' for n, c in zip(('f0', 'f1', 'f2', 'f3'), case[1]) if c != 'ascii')
            out.append(dict(key=f'{clause}/identification/{case[0]}/{cause}', clause=clause,
                            replay=dict(part='c', case=[case[0], list(case[1])]),
                            detail=dict(cause=cause, fields=nonascii)))
    return len(cases), oc, out


def run(tier, seed, rep):
    # histories of several requests on one object under the full fault alphabet (mc/sessions.py)
    from .. import sessions
    _ses = sessions.explore_sessions(tier, seed, {'C09'}, light=True)
    rep.add_many([v for v in _ses.violations if v['prop'] == 'C09'])
    total = Stats()
    # (a)
    ja = []
    grid = [(1, 1)] if tier == 'quick' else [(1, 0), (1, 1), (1, 2)]
    for fam, ops in OPS.items():
        for op in ops:
            for tr in ('udp', 'tcp'):
                if fam == 'ES' and tr == 'tcp':
                    continue
                for ka in (False, True):
                    for (T, R) in grid:
                        single = op in ('read_sensor', 'read_setting', 'write_setting')
                        cfg = dict(family=fam, op=op, transport=tr, ka=ka, T=T, R=R,
                                   conn=(single and (op == 'read_setting' or fam == 'DT')))
                        if single:
                            # one request: full product over the alphabet to depth R+1 (R<=1), 3 deviations for R=2
                            ja.append((cfg, R + 1 + (R + 1 if cfg['conn'] and tr == 'tcp' else 0), None if R <= 1 else 3))
                        else:
                            # several requests per call: the first request gets the full product at R=0, deeper
                            # positions are reached by deviation bounding
                            ja.append((cfg, 3 * (R + 1), 1 if tier == 'quick' else 2))
    # answers cut off after every number of bytes 1..9 (inside the header, right after the function code, inside the data):
    # whatever the receive callback makes of them, the call ends with a library exception or the retried value
    for fam in ('ET', 'DT', 'ES'):
        for tr in ('udp', 'tcp'):
            if fam == 'ES' and tr == 'tcp':
                continue
            for ka in (False, True):
                for op in ('read_setting', 'write_setting'):
                    ja.append((dict(family=fam, op=op, transport=tr, ka=ka, T=1, R=1, conn=False,
                                    letters=[f'cut{n}' for n in range(1, 10)] + ['valid', 'drop']), 2, None))
    k = seed % len(ja)
    ja = ja[k:] + ja[:k]
    for st in pmap(job_a, ja):
        total.merge(st)
    # (b)
    depth = 8 if tier == 'thorough' else 5
    jb = [(dict(transport=tr, ka=ka, T=1, R=R), depth) for tr in ('udp', 'tcp') for ka in (False, True) for R in (0, 1)]
    fixes = 0
    nb = 0
    for st, fix in pmap(job_b, jb):
        total.merge(st)
        fixes += bool(fix)
        nb += st.executions
    for n, res in pmap(job_b_dt, [(dict(transport=tr, ka=ka, T=1, R=R), 4 if tier == 'thorough' else 3)
                                  for tr in ('udp', 'tcp') for ka in (False, True) for R in (0, 1)]):
        nb += n
        rep.add_many(res)
    # (d)
    nd = 0
    for n, res in pmap(job_d, [(dict(transport=tr, ka=ka, T=1, R=R),) for tr in ('udp', 'tcp') for ka in (False, True)
                               for R in ((0, 1) if tier == 'thorough' else (0,))]):
        nd += n
        total.violations.extend(res)
    # (c)
    cases = list(id_cases(tier))
    chunks = [cases[i::32] for i in range(32)]
    nc = 0
    occ = {}
    for n, oc, out in pmap(job_c, chunks):
        nc += n
        for kk, v in oc.items():
            occ[kk] = occ.get(kk, 0) + v
        total.violations.extend(out)
    rep.add_many(total.violations)
    cov = dict(session_histories=_ses.executions, session_states=len(_ses.states), session_choice_points=_ses.choice_points,
               states=len(total.states), transitions=len(total.edges), executions=total.executions + nc,
               traces_validated_against_impl=total.executions + nc,
               fault_script_executions=total.executions - nb, counter_histories=nb, overlapping_call_cases=nd,
               counter_fixpoint_reached_in=f'{fixes}/{len(jb)} configurations (depth bound {depth})',
               identification_payloads=nc, identification_outcomes={str(k): v for k, v in sorted(occ.items())},
               distinct_outcome_classes=len(total.outcomes),
               outcome_classes={str(k): v for k, v in sorted(total.outcomes.items(), key=str)},
               exhaustive=not total.capped,
               bound='(a) product over C04 alphabet + late ICMP/RST + send errors to depth R+1 (R<=1; 3 deviations for '
                     'R=2) through public API calls of ET/DT/ES; (b) BFS over outcome histories with fingerprint '
                     f'de-duplication to depth {depth}; (c) byte-class product over identification text fields',
               samples=total.samples[:4] + [dict(identification_case=list(cases[5][1]), entry=cases[5][0])])
    return dict(level='model_checking', coverage=cov,
                assumptions=['a rejected request is neither success nor failure for the counter (both readings accepted)',
                             'GC-timed "exception was never retrieved" reports are not callback exceptions',
                             'kernel model; TCP send errors limited to EPIPE/ECONNRESET (others are logged by asyncio itself)'])


def replay(r):
    if r.get('part') == 'session':
        from .. import sessions
        out = sessions.replay(r)
        out['violations'] = [m for m in out['violations'] if m[0] == 'C09']
        return out
    if r['part'] == 'a':
        obs = run_a(r['cfg'], Ctx(r['choices']), r['letters'], r['conn'])
        return dict(script=obs.letters, result=[str(x) for x in obs.result[:4]], unhandled=obs.unhandled,
                    violations=judge(obs))
    if r['part'] == 'd':
        v = run_d(r['cfg'], tuple(r['history']), tuple(r['outcomes']), tuple(r['offsets']))
        return dict(violations=v)
    if r['part'] == 'b-dt':
        return dict(history=r['history'], violations=run_b_dt(r['cfg'], r['history']))
    if r['part'] == 'b':
        v, _, _ = run_b(r['cfg'], r['history'])
        return dict(history=r['history'], violations=v)
    v, res = run_c((r['case'][0], tuple(r['case'][1])))
    return dict(result=[str(x) for x in res[:3]], violations=v)
