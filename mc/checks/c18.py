"""C18 - reading never writes, and invalid setter arguments never reach the inverter (DESIGN 3, C18)."""
from __future__ import annotations

import collections

from .. import world
from ..configs import make_rig
from ..explore import pmap, h
from ..sensor_enum import ECO_V1_BASE, SCHED_BASE

OM = world.goodwe.OperationMode
g = world.goodwe

READ_OPS = ['read_device_info', 'read_runtime_data', 'read_sensor:first', 'read_sensor:last', 'read_sensor:unknown',
            'read_setting:grid_export_limit', 'read_setting:eco_mode_1', 'read_setting:work_mode', 'read_setting:unknown',
            'read_setting:modbus-47000', 'read_settings_data', 'get_grid_export_limit', 'get_operation_mode',
            'get_operation_modes', 'get_ongrid_battery_dod']


ECOS = ('charge', 'off', 'undecodable', 'peak-typed', 'not-set', '745', 'mode-general', 'mode-unknown')


def configs(tier):
    out = []
    for refused in ((), ('eco_v2', 'peak_shaving'), ('battery', 'mppt', 'meter_ext2')):
        for tag, p in (('ETU', 10000), ('ETT', 25000), ('EHU', 5000)):
            for eco in ECOS:
                out.append(dict(family='ET', tag=tag, power=p, refused=refused, battery_mode=2, eco=eco))
    for tag in ('DTU', 'DSN', 'MSU'):
        for refused in ((), ('meter',)):
            out.append(dict(family='DT', tag=tag, power=5000, refused=refused, battery_mode=0, eco='off'))
    for fw in (b'1414E', b'2222E', b'10106'):
        for eco in ECOS:
            out.append(dict(family='ES', tag='ESU', power=5000, refused=(), battery_mode=0, firmware=fw, eco=eco))
    return out if tier == 'thorough' else out[::3] + out[1:2]


def prepare(cfg, transport='udp', R=0, ka=False):
    r = make_rig(cfg, transport, R=R, ka=ka)
    dev = r.dev
    v1 = {'charge': ECO_V1_BASE[1], 'off': ECO_V1_BASE[0], 'undecodable': bytes([99] * 8)}.get(cfg['eco'], ECO_V1_BASE[2])
    v2 = {'charge': SCHED_BASE[1], 'off': SCHED_BASE[0], 'undecodable': bytes([99] * 12), 'peak-typed': SCHED_BASE[2],
          'not-set': SCHED_BASE[3], '745': SCHED_BASE[4]}.get(cfg['eco'], SCHED_BASE[1])
    wm = {'mode-general': 0, 'mode-unknown': 77}.get(cfg['eco'], 3)
    if cfg['family'] == 'ET':
        dev.rf.setbytes(47515, v1)
        dev.rf.setbytes(47547, v2)
        dev.rf.set(47000, wm)
        dev.rf.set(45356, 20)
    elif cfg['family'] == 'ES':
        dev.rf.setbytes(1793, v1)
        dev.rf.setbytes(47547, v2)
        dev.settings[66:68] = bytes([0, wm])
        dev.settings[32:34] = b'\x00\x14'
    return r


SETTERS = ['set:dod=99', 'set:mode=OFF_GRID', 'set:export=1', 'set:mode=ECO_CHARGE', 'set:mode=GENERAL', 'set:write_export=3']


def do_set(r, op):
    """legal setter calls (history letters: what they transmit is not judged here)"""
    inv = r.inv
    if op == 'set:dod=99':
        return r.call(inv.set_ongrid_battery_dod, 99)
    if op == 'set:mode=OFF_GRID':
        return r.call(inv.set_operation_mode, OM.OFF_GRID)
    if op == 'set:mode=GENERAL':
        return r.call(inv.set_operation_mode, OM.GENERAL)
    if op == 'set:mode=ECO_CHARGE':
        return r.call(inv.set_operation_mode, OM.ECO_CHARGE, 1, 1)
    if op == 'set:export=1':
        return r.call(inv.set_grid_export_limit, 1)
    return r.call(inv.write_setting, 'grid_export_limit', 3)


def do_read(r, op):
    inv = r.inv
    if op.startswith('read_sensor:'):
        k = op.split(':')[1]
        ss = inv.sensors()
        sid = ss[0].id_ if k == 'first' else ss[-1].id_ if k == 'last' else k if k.startswith('modbus') else 'no_such_sensor'
        return r.call(inv.read_sensor, sid)
    if op.startswith('read_setting:'):
        k = op.split(':')[1]
        return r.call(inv.read_setting, 'no_such_setting' if k == 'unknown' else k)
    if op == 'get_operation_modes':
        return r.call(inv.get_operation_modes, True)
    return r.call(getattr(inv, op))


def written(dev):
    return [q for q in dev.log if q.get('fn') not in (3, 'read')]


def inv_state(r):
    inv = r.inv
    from ..explore import obj_state
    return h((obj_state(inv, r.loop.time()), obj_state(inv._protocol, r.loop.time()) if hasattr(inv, '_protocol') else None,
              tuple(sorted((k, v) for k, v in vars(inv).items() if k.startswith('_has'))),
              tuple(sorted(inv._settings)), len(inv.sensors()), inv.serial_number,
              tuple(str(x) for x in getattr(r.dev, 'writes', [])[-6:])))   # what was written so far is part of the state


def job_reads(j):
    cfg, depth, transport = j
    seen = set()
    frontier = collections.deque([[]])
    n = 0
    edges = 0
    out = {}
    oc = {}
    while frontier:
        hist = frontier.popleft()
        r = prepare(cfg, transport)
        w = []
        for op in hist:
            if op.startswith('set:'):
                do_set(r, op)
                continue
            l0 = len(r.dev.log)
            res = do_read(r, op)
            oc[(op.split(':')[0], res[0], res[1] if res[0] == 'exc' else '')] = 1
            w += [q for q in r.dev.log[l0:] if q.get('fn') not in (3, 'read')]    # attributed to this monitoring call
        n += 1
        if w:
            key = f"read-only/{cfg['family']}/{[o for o in hist if not o.startswith('set:')][-1].split(':')[0]}" + \
                ('/after-setter' if any(o.startswith('set:') for o in hist) else '')
            out.setdefault(key, []).append(dict(key=key, clause='monitoring calls transmit only read requests',
                                                replay=dict(part='reads', cfg=cfg, history=hist, transport=transport),
                                                detail=dict(history=hist, write_seen=str(w[0])[:100])))
        if r.dev.bad:
            key = f"requests-parse/{cfg['family']}"
            out.setdefault(key, []).append(dict(key=key, clause='requests parse', replay=dict(part='reads', cfg=cfg, history=hist, transport=transport),
                                                detail=dict(bad=r.dev.bad[0][1])))
        st = inv_state(r)
        if st in seen:
            continue
        seen.add(st)
        if len(hist) >= depth:
            continue
        for op in READ_OPS + (SETTERS if len(hist) < depth - 1 else []):
            frontier.append(hist + [op])
            edges += 1
    res = []
    for key, lst in out.items():
        lst.sort(key=lambda v: len(v['replay']['history']))
        lst[0]['n'] = len(lst)
        res.append(lst[0])
    return n, edges, len(seen), res, len(oc)


RAW_REGS = (0, 1, 0x0560, 1376 + 1, 1793, 29999, 30000, 30001, 30100, 35100, 40328, 45356, 47000, 47547, 65535)


def job_raw_ids(cfg):
    """Monitoring calls with caller-chosen raw register ids ('modbus-<n>' / 'modbus_<n>') over the whole register range:
    whatever path such an id takes inside the family class, only read requests reach the inverter."""
    out = {}
    n = 0
    for when in ('fresh', 'after-device-info'):
        r = prepare(cfg)
        if when != 'fresh':
            r.call(r.inv.read_device_info)
        for reg in RAW_REGS:
            for sep in '-_':
                for call in ('read_setting', 'read_sensor'):
                    l0 = len(r.dev.log)
                    res = r.call(getattr(r.inv, call), f'modbus{sep}{reg}')
                    n += 1
                    w = [q for q in r.dev.log[l0:] if q.get('fn') not in (3, 'read')]
                    if w:
                        key = f"read-only/{cfg['family']}/{call}/raw-register-id"
                        out.setdefault(key, []).append(dict(
                            key=key, clause='monitoring calls transmit only read requests',
                            replay=dict(part='raw', cfg=cfg),
                            detail=dict(call=f"{call}('modbus{sep}{reg}')", when=when, write_seen=str(w[0])[:100], outcome=str(res)[:60])))
    res = []
    for key, lst in out.items():
        lst[0]['n'] = len(lst)
        res.append(lst[0])
    return n, res


def run_connect_fault(cfg, setter, reader, ka, k):
    """[read_device_info, setter, reader] over Modbus/TCP with one retry; connection attempt #k is refused once."""
    r = prepare(cfg, 'tcp', R=1, ka=ka)
    r.dev.refuse_connect_at = {k} if k is not None else set()
    r.call(r.inv.read_device_info)
    do_set(r, setter)
    l0 = len(r.dev.log)
    res = do_read(r, reader)
    w = [q for q in r.dev.log[l0:] if q.get('fn') not in (3, 'read')]
    return w, res, len(r.dev.connects)


def job_connect_faults(j):
    cfg, ka = j
    out = {}
    n = 0
    for setter in SETTERS:
        for reader in READ_OPS:
            _, _, nconn = run_connect_fault(cfg, setter, reader, ka, None)
            n += 1
            for k in range(nconn + 1):
                w, res, _ = run_connect_fault(cfg, setter, reader, ka, k)
                n += 1
                if w:
                    key = f"read-only/{cfg['family']}/{reader.split(':')[0]}/after-setter+refused-connect"
                    out.setdefault(key, []).append(dict(
                        key=key, clause='monitoring calls transmit only read requests',
                        replay=dict(part='connect-fault', cfg=cfg, setter=setter, reader=reader, ka=ka, k=k),
                        detail=dict(history=['read_device_info', setter, reader], refused_connect_index=k, keep_alive=ka,
                                    write_seen=str(w[0])[:100])))
    res = []
    for key, lst in out.items():
        lst[0]['n'] = len(lst)
        res.append(lst[0])
    return n, res


def job_removed(cfg):
    """An id that settings() does not list (any more) is an unknown setting id: writing it transmits nothing and raises
    ValueError.  Ids leave the list when the inverter rejects their registers during a monitoring call; every listed
    setting is taken through that history: [registers refused, read_setting(id) / get_*(), write_setting(id, v) and the
    high-level setter that uses it]."""
    from .c17 import domain
    out = {}
    n = 0
    base = prepare(cfg)
    if base.call(base.inv.read_device_info)[0] != 'ok':
        return 0, []
    sids = [(s.id_, s.offset, max(1, (s.size_ + 1) // 2)) for s in base.inv.settings()]
    HIGH = {'grid_export_limit': [('get_grid_export_limit', ()), ('set_grid_export_limit', (10,))],
            'battery_discharge_depth': [('get_ongrid_battery_dod', ()), ('set_ongrid_battery_dod', (50,))]}
    for sid, off, nregs in sids:
        for reader in ['read_setting'] + ([HIGH[sid][0][0]] if sid in HIGH else []):
            r = prepare(cfg)
            inv, dev = r.inv, r.dev
            r.call(inv.read_device_info)
            s = [x for x in inv.settings() if x.id_ == sid]
            if not s:
                continue
            dom = domain(s[0], False)
            if dom is None:
                continue
            dev.refused = list(dev.refused) + [(off, off + nregs - 1)]
            if reader == 'read_setting':
                r.call(inv.read_setting, sid)
            else:
                r.call(getattr(inv, reader))
            listed = sid in {x.id_ for x in inv.settings()}
            dev.refused = [x for x in dev.refused if x != (off, off + nregs - 1)]     # the inverter would accept it now
            calls = [('write_setting', (sid, dom[len(dom) // 2]))] + ([HIGH[sid][1]] if sid in HIGH else [])
            for cname, args in calls:
                l0 = len(dev.log)
                res = r.call(getattr(inv, cname), *args)
                n += 1
                w = [q for q in dev.log[l0:] if q.get('fn') not in (3, 'read')]
                if listed:
                    continue          # still a known id: writing it is legal
                if w or (cname == 'write_setting' and not (res[0] == 'exc' and res[1] == 'ValueError')):
                    key = f"unlisted-id-not-written/{cfg['family']}/{cname}"
                    out.setdefault(key, []).append(dict(
                        key=key, clause='unknown setting id transmits no write and raises ValueError',
                        replay=dict(part='removed', cfg=cfg, sid=sid),
                        detail=dict(setting=sid, history=[f'registers {off}..{off + nregs - 1} refused', f'{reader}', f'{cname}{args}'],
                                    listed_by_settings=listed, outcome=str(res)[:80], write_seen=str(w[0])[:100] if w else None)))
    res = []
    for key, lst in out.items():
        lst[0]['n'] = len(lst)
        res.append(lst[0])
    return n, res


def run_entry(kind, cfg):
    """connect()/discover() against the device model: only read requests."""
    from ..kernel import KLoop
    r = prepare(cfg)
    dev = r.dev

    async def main():
        try:
            if kind == 'discover':
                await g.discover('10.0.0.2', 8899, 1, 0)
            else:
                await g.connect('10.0.0.2', 8899, {'ET': 'ET', 'DT': 'DT', 'ES': 'ES'}[cfg['family']], 0, 1, 0)
            return 'ok'
        except g.InverterError:
            return 'inverter-error'
    world.reset()
    r.loop.kern.tx_cap = 4000
    st, res = r.loop.run(main())
    return written(dev), res


# ------------------------------------------------------------------ setters

def setter_cases(family):
    for x in list(range(-70000, 0, 1 if family else 1)):
        yield ('set_grid_export_limit', (x,), 'silent')
    if family in ('ET', 'ES'):
        for d in list(range(-300, 0)) + list(range(101, 401)):
            yield ('set_ongrid_battery_dod', (d,), 'silent')
        for mode in (OM.ECO_CHARGE, OM.ECO_DISCHARGE):
            for bad in list(range(-300, 0)) + list(range(101, 401)):
                yield ('set_operation_mode', (mode, bad, 50), 'ValueError')
                yield ('set_operation_mode', (mode, 50, bad), 'ValueError')
            for bad in (-300, -100, -50, -1, 101, 400):
                yield ('set_operation_mode:kw', (mode, bad, 50), 'ValueError')
                yield ('set_operation_mode:kw', (mode, 50, bad), 'ValueError')
            # values that come back into 0..100 when cut to 8, 16 or 32 bits (the encoders mask and format)
            for base in (256, 65536, 2 * 65536, 2 ** 32, -65536, -2 ** 32):
                for k in list(range(-100, 101, 4)) + [-1, 1, 99, 100]:
                    v = base + k
                    if not 0 <= v <= 100:
                        yield ('set_operation_mode', (mode, v, 50), 'ValueError')
                        yield ('set_operation_mode', (mode, 50, v), 'ValueError')
        for base in (256, 65536, 2 ** 32):
            for k in range(-100, 101, 10):
                yield ('set_ongrid_battery_dod', (base + k,), 'silent')
    for sid in ('', ' ', 'grid_export_limi', 'Grid_export_limit', 'grid_export_limit ', 'eco_mode_5', 'work-mode', 'unknown',
                'mod', 'time2') + UNLISTED_NUMERIC:
        yield ('write_setting', (sid, 1), 'ValueError')
        yield ('read_setting', (sid,), 'ValueError')


# ids that contain a register number at every position without being the documented raw-register form 'modbus-<n>'
UNLISTED_NUMERIC = tuple('x' * k + '47510' for k in range(0, 12)) + tuple('_' * k + '40328' for k in (6, 7, 8)) + \
    ('setting47510', 'unknown1', 'no_such-12', ' modbus-47510', 'Modbus-47510', 'MODBUS-47510', 'xmodbus-47510', 'modbu-s47510',
     'register-47510', 'mod-bus-47510', '47510-modbus', '-47510', '0x47510')


def job_setters(j):
    cfg, part, nparts = j
    r = prepare(cfg)
    r.call(r.inv.read_device_info)
    n = 0
    out = {}
    for i, (name, args, expect) in enumerate(setter_cases(cfg['family'])):
        if i % nparts != part:
            continue
        l0 = len(r.dev.log)
        res = invoke(r, name, args)
        n += 1
        name = name.replace(':kw', '')
        w = [q for q in r.dev.log[l0:] if q.get('fn') not in (3, 'read')]
        argcls = 'negative' if isinstance(args[0], int) and args[0] < 0 else 'too-large' if isinstance(args[0], int) else 'unknown-id'
        if name == 'set_operation_mode':
            bad = args[1] if not 0 <= args[1] <= 100 else args[2]
            argcls = ('power' if not 0 <= args[1] <= 100 else 'soc') + ('-negative' if bad < 0 else '-too-large')
        if w:
            key = f"no-write-for-invalid-argument/{cfg['family']}/{name}/{argcls}"
            out.setdefault(key, []).append(dict(key=key, clause='out-of-range setter arguments transmit no write',
                                                replay=dict(part='setter', cfg=cfg, call=name, args=[str(a) for a in args]),
                                                detail=dict(call=name, args=[str(a) for a in args], write_seen=str(w[0])[:100])))
        if expect == 'ValueError' and not (res[0] == 'exc' and res[1] == 'ValueError'):
            if cfg['family'] == 'DT' and name == 'set_operation_mode':
                continue
            key = f"raises-ValueError/{cfg['family']}/{name}/{argcls}"
            out.setdefault(key, []).append(dict(key=key, clause='documented ValueError',
                                                replay=dict(part='setter', cfg=cfg, call=name, args=[str(a) for a in args]),
                                                detail=dict(call=name, args=[str(a) for a in args], outcome=str(res)[:100])))
    res = []
    for key, lst in out.items():
        lst[0]['n'] = len(lst)
        res.append(lst[0])
    return n, res


def job_sensor_ids(cfg):
    """An id that names a runtime sensor but no setting is an unknown setting id - also after read_sensor() calls (which
    build the object's sensor map): no write, ValueError."""
    out = {}
    n = 0
    for prior in ('none', 'read_sensor', 'runtime+read_sensor'):
        r = prepare(cfg)
        r.call(r.inv.read_device_info)
        sens = [s for s in r.inv.sensors() if s.id_ not in {x.id_ for x in r.inv.settings()}]
        if prior != 'none':
            if prior.startswith('runtime'):
                r.call(r.inv.read_runtime_data)
            r.call(r.inv.read_sensor, sens[0].id_)
            r.call(r.inv.read_sensor, sens[-1].id_)
        seen_t = set()
        for s in sens:
            if type(s).__name__ in seen_t:
                continue
            seen_t.add(type(s).__name__)
            for call, args in (('write_setting', (s.id_, 1)),):
                l0 = len(r.dev.log)
                res = r.call(getattr(r.inv, call), *args)
                n += 1
                w = [q for q in r.dev.log[l0:] if q.get('fn') not in (3, 'read')]
                if w or not (res[0] == 'exc' and res[1] == 'ValueError'):
                    key = f"sensor-id-is-not-a-setting/{cfg['family']}/after:{prior}"
                    out.setdefault(key, []).append(dict(
                        key=key, clause='unknown setting id transmits no write and raises ValueError',
                        replay=dict(part='sensor-ids', cfg=cfg),
                        detail=dict(call=f'{call}{args}', sensor_type=type(s).__name__, history=prior, outcome=str(res)[:80],
                                    write_seen=str(w[0])[:100] if w else None)))
    res = []
    for key, lst in out.items():
        lst[0]['n'] = len(lst)
        res.append(lst[0])
    return n, res


def invoke(r, name, args):
    """Call a public method positionally, or - name ending in ':kw' - with every argument passed by keyword (both are the
    documented calling conventions; guards must not depend on which one the caller uses)."""
    import inspect
    if name.endswith(':kw'):
        fn = getattr(r.inv, name[:-3])
        params = [p for p in inspect.signature(fn).parameters]
        return r.call(fn, **dict(zip(params, args)))
    return r.call(getattr(r.inv, name), *args)


def boundary_cases(family):
    yield ('set_grid_export_limit', (-1,), 'silent')
    if family in ('ET', 'ES'):
        for d in (-1, 101):
            yield ('set_ongrid_battery_dod', (d,), 'silent')
        for mode in (OM.ECO_CHARGE, OM.ECO_DISCHARGE):
            for bad in (-1, -50, -100, 101, 1000):
                yield ('set_operation_mode', (mode, bad, 50), 'ValueError')
                yield ('set_operation_mode', (mode, 50, bad), 'ValueError')
                yield ('set_operation_mode:kw', (mode, bad, 50), 'ValueError')
                yield ('set_operation_mode:kw', (mode, 50, bad), 'ValueError')
        yield ('set_ongrid_battery_dod:kw', (-1,), 'silent')
        yield ('set_grid_export_limit:kw', (-1,), 'silent')
    yield ('write_setting', ('no_such_setting', 1), 'ValueError')


def legal_priors(family):
    out = [('set_grid_export_limit', (100,)), ('write_setting', ('grid_export_limit', 7))]
    if family != 'DT':
        out += [('set_operation_mode', (m, 50, 50)) for m in OM] + [('set_ongrid_battery_dod', (40,))]
        # monitoring calls that read the eco-mode groups (they leave the decoded schedule type on the setting objects)
        out += [('read_setting', ('eco_mode_1',)), ('read_setting', ('eco_mode_2',)), ('read_settings_data', ()),
                ('get_operation_mode', ())]
    out += [('read_runtime_data', ())]
    return out


def job_setters_after(cfg):
    """Guards precede the first transmission also when the object has a history: every legal setter call (each operation
    mode, export limit, DoD, a plain write) followed by each boundary out-of-range call - in both orders of the
    invalid calls - on one object."""
    out = {}
    n = 0
    for pname, pargs in legal_priors(cfg['family']):
        for rev in (False, True):
            r = prepare(cfg)
            r.call(r.inv.read_device_info)
            pr = r.call(getattr(r.inv, pname), *pargs)
            cases = list(boundary_cases(cfg['family']))
            for (name, args, expect) in (cases[::-1] if rev else cases):
                l0 = len(r.dev.log)
                res = invoke(r, name, args)
                n += 1
                w = [q for q in r.dev.log[l0:] if q.get('fn') not in (3, 'read')]
                pn = pname + (':' + pargs[0].name if pname == 'set_operation_mode' else '')
                if w:
                    key = f"no-write-for-invalid-argument/{cfg['family']}/{name}/after:{pn}"
                    out.setdefault(key, []).append(dict(
                        key=key, clause='out-of-range setter arguments transmit no write',
                        replay=dict(part='setter-after', cfg=cfg, prior=[pname, [str(a) for a in pargs]], call=name,
                                    args=[str(a) for a in args], rev=rev),
                        detail=dict(history=[f'{pname}{pargs} -> {pr[0]}', f'{name}{args}'], write_seen=str(w[0])[:100])))
                if expect == 'ValueError' and not (res[0] == 'exc' and res[1] == 'ValueError') and \
                        not (cfg['family'] == 'DT' and name == 'set_operation_mode'):
                    key = f"raises-ValueError/{cfg['family']}/{name}/after:{pn}"
                    out.setdefault(key, []).append(dict(
                        key=key, clause='documented ValueError',
                        replay=dict(part='setter-after', cfg=cfg, prior=[pname, [str(a) for a in pargs]], call=name,
                                    args=[str(a) for a in args], rev=rev),
                        detail=dict(history=[f'{pname}{pargs}', f'{name}{args}'], outcome=str(res)[:100])))
    res = []
    for key, lst in out.items():
        lst[0]['n'] = len(lst)
        res.append(lst[0])
    return n, res


def job_failing_reads(cfg):
    """Monitoring calls while the inverter does not answer: streaks of 1..5 failing calls (every read entry point in turn,
    and one entry point repeated), then the inverter answers again - no write / control request is ever transmitted,
    whatever the object makes of its failures."""
    out = {}
    n = 0
    for streak_op in READ_OPS + ['all']:
        r = prepare(cfg)
        r.call(r.inv.read_device_info)
        l0 = len(r.dev.log)
        r.dev.silent = True
        ops = READ_OPS if streak_op == 'all' else [streak_op] * 5
        for op in ops:
            do_read(r, op)
            n += 1
        r.dev.silent = False
        for op in ('read_runtime_data', 'read_device_info'):
            do_read(r, op)
            n += 1
        w = [q for q in r.dev.log[l0:] if q.get('fn') not in (3, 'read')]
        if w:
            key = f"read-only/{cfg['family']}/while-the-inverter-is-silent"
            out.setdefault(key, []).append(dict(key=key, clause='monitoring calls transmit only read requests',
                                                replay=dict(part='failing-reads', cfg=cfg),
                                                detail=dict(calls=ops, write_seen=str(w[0])[:100])))
    res = []
    for key, lst in out.items():
        lst[0]['n'] = len(lst)
        res.append(lst[0])
    return n, res


def vacuity(cfg):
    """in-range arguments do produce writes (otherwise part (b) would be vacuous)."""
    r = prepare(cfg)
    r.call(r.inv.read_device_info)
    miss = []
    for name, args in (('set_grid_export_limit', (1000,)), ('set_ongrid_battery_dod', (50,)),
                       ('set_operation_mode', (OM.ECO_CHARGE, 50, 50)), ('write_setting', ('grid_export_limit', 500))):
        if cfg['family'] == 'DT' and name in ('set_ongrid_battery_dod', 'set_operation_mode'):
            continue
        if cfg['family'] == 'ES' and name == 'write_setting':
            continue
        l0 = len(r.dev.log)
        r.call(getattr(r.inv, name), *args)
        if not [q for q in r.dev.log[l0:] if q.get('fn') not in (3, 'read')]:
            miss.append(name)
    return miss


def sample_reads(cfg, hist):
    r = prepare(cfg)
    outs = [str(do_read(r, op))[:40] for op in hist]
    return dict(cfg={k: str(v) for k, v in cfg.items()}, history=hist, outcomes=outs, requests_seen=len(r.dev.log),
                write_requests_seen=len(written(r.dev)))


def run(tier, seed, rep):
    # histories of public API calls and device changes on one object, then probes of the API-level properties
    from .. import api_sessions
    _api = api_sessions.explore(tier, seed, {'C18'})
    rep.add_many([v for v in _api['violations'] if v['prop'] == 'C18'])
    cfgs = configs(tier)
    depth = 3 if tier == 'thorough' else 2
    jobs = [(c, depth, 'udp') for c in cfgs] + [(c, 2, 'tcp') for c in cfgs if c['family'] != 'ES'][::3]
    k = seed % len(jobs)
    jobs = jobs[k:] + jobs[:k]
    total = edges = states = 0
    ocs = 0
    for n, e, s, res, oc in pmap(job_reads, jobs):
        total += n
        edges += e
        states += s
        ocs = max(ocs, oc)
        rep.add_many(res)
    ne = 0
    for cfg in cfgs[::4]:
        for kind in ('connect', 'discover'):
            w, res = run_entry(kind, cfg)
            ne += 1
            if w:
                rep.add(f"read-only/{cfg['family']}/{kind}", 'monitoring calls transmit only read requests',
                        dict(part='entry', cfg=cfg, kind=kind), dict(write_seen=str(w[0])[:100]))
    ncf = 0
    cf_cfgs = [c for c in cfgs if c['family'] != 'ES' and c['refused'] == () and c['eco'] in ('off', 'charge')]
    for n, res in pmap(job_connect_faults, [(c, ka) for c in (cf_cfgs if tier == 'thorough' else cf_cfgs[:3]) for ka in (False, True)]):
        ncf += n
        rep.add_many(res)
    nfail = 0
    fcfgs = [c for c in cfgs if c['eco'] in ('off', 'charge') and c['refused'] == ()]
    fr = {}
    for c in fcfgs:
        fr.setdefault((c['family'], c.get('firmware'), c['tag']), c)
    for n, res in pmap(job_failing_reads, list(fr.values())):
        nfail += n
        rep.add_many(res)
    nsid = 0
    for n, res in pmap(job_sensor_ids, [c for c in cfgs if c['eco'] in ('off', 'charge') and c['refused'] == ()][:6] +
                       [c for c in cfgs if c['family'] == 'ES'][:1]):
        nsid += n
        rep.add_many(res)
    nraw = 0
    for n, res in pmap(job_raw_ids, [c for c in cfgs if c['eco'] in ('off', 'charge') and c['refused'] == ()][:6] +
                       [c for c in cfgs if c['family'] == 'ES'][:2]):
        nraw += n
        rep.add_many(res)
    nrem = 0
    rcfgs = [c for c in cfgs if c['family'] != 'ES' and c['eco'] in ('off', 'charge')]
    for n, res in pmap(job_removed, rcfgs if tier == 'thorough' else rcfgs[:4]):
        nrem += n
        rep.add_many(res)
    fams = [c for c in cfgs if c['eco'] == 'off' or c['family'] == 'DT']
    reps = {}
    for c in fams:
        reps.setdefault((c['family'], c.get('firmware'), c['refused'] == ()), c)
    nparts = 8
    ns = 0
    for n, res in pmap(job_setters, [(c, p, nparts) for c in reps.values() for p in range(nparts)]):
        ns += n
        rep.add_many(res)
    nsa = 0
    # (every eco-mode register content of the configuration list: the groups may hold peak-shaving / 745 typed schedules)
    sa_cfgs = list(reps.values()) + [c for c in cfgs if c['family'] != 'DT' and c['refused'] == () and c['eco'] != 'off' and
                                     c not in reps.values()]
    # (inverters without a battery, or refusing the battery block: the polls record that on the object)
    sa_cfgs += [dict(family='ET', tag=t, power=p, refused=rf, battery_mode=bm, eco='off')
                for t, p in (('ETU', 10000), ('ETT', 25000)) for rf, bm in (((), 0), (('battery',), 2), (('battery', 'mppt', 'meter_ext2'), 0))]
    for n, res in pmap(job_setters_after, sa_cfgs):
        nsa += n
        rep.add_many(res)
    for c in reps.values():
        miss = vacuity(c)
        for name in miss:
            rep.add(f"vacuity/{c['family']}/{name}", 'in-range arguments must produce a write (harness sanity)',
                    dict(part='vacuity', cfg=c), dict(call=name))
    cov = dict(api_session_histories=_api['histories'], api_session_states=_api['states'],
               states=states, transitions=max(edges, 1), executions=total + ne + ns + ncf, traces_validated_against_impl=total + ne + ns + ncf,
               connect_fault_runs=ncf, monitoring_calls_on_a_silent_inverter=nfail, raw_register_id_calls=nraw, sensor_ids_written=nsid, unlisted_id_write_attempts=nrem, invalid_calls_after_legal_setters=nsa,
               read_sequences=total, entry_point_runs=ne, setter_calls=ns, distinct_read_outcomes=ocs, exhaustive=True,
               bound=f'BFS over read-only call sequences of depth <= {depth} ({len(READ_OPS)} calls) with state de-duplication x '
                     f'{len(cfgs)} configurations (families, capability fallbacks, eco-mode register contents); connect() and '
                     f'discover(); every integer argument in windows round each guard: export limit -70000..-1, DoD '
                     f'-300..-1 and 101..400, eco power / SoC -300..-1 and 101..400, near-miss setting ids',
               samples=[sample_reads(cfgs[0], ['read_device_info', 'get_operation_mode', 'read_settings_data'])])
    return dict(level='model_checking', coverage=cov,
                assumptions=['device model logs every request it can parse; writes = Modbus functions 6/16, AA55 02xx/03xx'])


def replay(r):
    if r.get('part') == 'api-session':
        from .. import api_sessions
        out = api_sessions.replay(r)
        out['violations'] = [m for m in out['violations'] if m[0] == 'C18']
        return out
    cfg = r['cfg']
    cfg['refused'] = tuple(cfg['refused'])
    if isinstance(cfg.get('firmware'), dict):
        cfg['firmware'] = bytes.fromhex(cfg['firmware']['hex'])
    if r['part'] == 'reads':
        rg = prepare(cfg, r['transport'])
        outs = []
        w = []
        for op in r['history']:
            if op.startswith('set:'):
                do_set(rg, op)
                continue
            l0 = len(rg.dev.log)
            outs.append(str(do_read(rg, op))[:80])
            w += [q for q in rg.dev.log[l0:] if q.get('fn') not in (3, 'read')]
        return dict(outcomes=outs, violations=[str(x) for x in w])
    if r['part'] == 'failing-reads':
        n, res = job_failing_reads(cfg)
        return dict(calls=n, violations=[(v['key'], str(v['detail'])[:200]) for v in res])
    if r['part'] == 'setter-after':
        n, res = job_setters_after(cfg)
        return dict(calls=n, violations=[(v['key'], str(v['detail'])[:200]) for v in res])
    if r['part'] == 'sensor-ids':
        n, res = job_sensor_ids(cfg)
        return dict(calls=n, violations=[(v['key'], v['detail']['call']) for v in res])
    if r['part'] == 'raw':
        n, res = job_raw_ids(cfg)
        return dict(calls=n, violations=[(v['key'], v['detail']['call']) for v in res])
    if r['part'] == 'removed':
        n, res = job_removed(cfg)
        return dict(attempts=n, violations=[(v['key'], v['detail']['setting']) for v in res])
    if r['part'] == 'connect-fault':
        w, res, nconn = run_connect_fault(cfg, r['setter'], r['reader'], r['ka'], r['k'])
        return dict(outcome=str(res)[:100], connects=nconn, violations=[str(x) for x in w])
    if r['part'] == 'entry':
        w, res = run_entry(r['kind'], cfg)
        return dict(result=res, violations=[str(x) for x in w])
    if r['part'] == 'setter':
        rg = prepare(cfg)
        rg.call(rg.inv.read_device_info)
        args = []
        for a in r['args']:
            try:
                args.append(int(a))
            except ValueError:
                args.append(getattr(OM, a.split('.')[-1]) if a.startswith('OperationMode') else a)
        l0 = len(rg.dev.log)
        res = invoke(rg, r['call'], args)
        w = [q for q in rg.dev.log[l0:] if q.get('fn') not in (3, 'read')]
        return dict(outcome=str(res)[:100], violations=[str(x) for x in w])
    return dict(violations=vacuity(cfg))
