"""C11 part 2: single-value / bulk settings reads through the device model."""
from __future__ import annotations

from .. import world, refdec
from ..configs import make_rig
from ..explore import pmap
from ..sensor_enum import own_values

CFGS = [dict(name='ET-v2', family='ET', tag='ETU', power=10000, refused=(), battery_mode=2),
        dict(name='ET-v1', family='ET', tag='ETU', power=10000, refused=('eco_v2', 'peak_shaving'), battery_mode=2),
        dict(name='ES', family='ES', tag='ESU', power=5000, refused=(), battery_mode=0, firmware=b'1414E'),
        dict(name='ES-v2', family='ES', tag='ESU', power=5000, refused=(), battery_mode=0, firmware=b'2222E'),
        dict(name='DT', family='DT', tag='DTU', power=5000, refused=(), battery_mode=0)]
FILLS = {'all-ffff': lambda a: 0xFFFF, 'all-0000': lambda a: 0, 'all-7fff': lambda a: 0x7FFF, 'all-8000': lambda a: 0x8000,
         'ramp': lambda a: (a * 257 + 3) & 0xFFFF, 'all-6363': lambda a: 0x6363}


_HEALTHY_IDS = {}


def _txt(v):
    # (the text of a value handed out by the library; a value whose str() raises is told apart, not a harness crash)
    try:
        return str(v)
    except Exception as e:  # noqa: BLE001
        return f'<str() raised {type(e).__name__}>'


def _ids_with_healthy_contents(cfg):
    if cfg['name'] not in _HEALTHY_IDS:
        r = make_rig(cfg, fill=_healthy)
        if cfg['family'] == 'ES':
            for i in range(len(r.dev.settings)):
                r.dev.settings[i] = 0
        ok = r.call(r.inv.read_device_info)[0] == 'ok'
        _HEALTHY_IDS[cfg['name']] = sorted({s.id_ for s in r.inv.settings()}) if ok else None
    return _HEALTHY_IDS[cfg['name']]


def run_case(cfg, fname, group=None, prepoll=False):
    r = make_rig(cfg, fill=FILLS[fname])
    inv, dev = r.inv, r.dev
    if r.call(inv.read_device_info)[0] != 'ok':
        return [], 0
    if prepoll:
        # the runtime data were polled before the settings are read (capability flags of the object reflect what the
        # poll saw: no battery, refused blocks ...)
        if cfg['family'] == 'ET' and prepoll == 'no-battery':
            dev.rf.set(35184, 0)
        if cfg['family'] == 'ET' and prepoll == 'blocks-refused':
            from ..devsim import ET_OPTIONAL
            dev.refused = list(dev.refused) + ET_OPTIONAL['battery'] + ET_OPTIONAL['mppt'] + ET_OPTIONAL['meter_ext2']
        r.call(inv.read_runtime_data)
        r.call(inv.read_runtime_data)
    if cfg['family'] == 'ES':
        for i in range(len(dev.settings)):
            dev.settings[i] = FILLS[fname](i) & 0xFF
    if group is not None:
        sid, b = group
        s = inv._settings[sid]
        dev.rf.setbytes(s.offset, b + (b'\0' if len(b) % 2 else b''))
    vio = []
    n = 0
    ids = [s.id_ for s in inv.settings()]
    if group is None and not prepoll:
        # which settings the object covers is a matter of model and firmware (what the inverter answers and refuses), not of
        # what the registers hold: the same inverter with interpretable contents everywhere has the same ids
        want = _ids_with_healthy_contents(cfg)
        if want is not None and sorted(set(ids)) != want:
            vio.append((f'settings-covered-do-not-depend-on-contents/{cfg["family"]}',
                        f'{fname}: settings() lacks {sorted(set(want) - set(ids))[:4]} (+{len(set(want) - set(ids))}), has extra '
                        f'{sorted(set(ids) - set(want))[:4]} compared with the same inverter holding interpretable contents'))
    # a second pass on the same object after the registers changed to the next content of the list (what was decodable
    # becomes undecodable and the other way round): an undecodable value never stands in the way of a decodable one
    names = list(FILLS)
    for pass_ in ((fname,) if group is not None else (fname, names[(names.index(fname) + 1) % len(names)], 'ramp')):
        if pass_ != fname:
            dev.rf.fill = FILLS[pass_]
            if cfg['family'] == 'ES':
                for i in range(len(dev.settings)):
                    dev.settings[i] = FILLS[pass_](i) & 0xFF
        bulk = None
        if cfg['family'] != 'DT':
            res = r.call(inv.read_settings_data)
            n += 1
            if res[0] != 'ok':
                vio.append((f'settings-data-total/{cfg["family"]}/{res[1] if res[0] == "exc" else res[0]}', f'{pass_}: {str(res)[:100]}'))
            elif list(res[1]) != list(dict.fromkeys(ids)):
                vio.append((f'settings-data-every-id/{cfg["family"]}', f'{pass_}: missing {sorted(set(ids) - set(res[1]))[:4]}'))
            else:
                bulk = {k: (None if v is None else _txt(v)) for k, v in res[1].items()}
        for sid in ids:
            if sid == 'time' and cfg['family'] == 'ES':
                continue
            res = r.call(inv.read_setting, sid)
            n += 1
            if res[0] == 'exc' and res[1] != 'ValueError':
                vio.append((f'read_setting-only-ValueError/{cfg["family"]}/{res[1]}', f'{pass_}: read_setting({sid!r}) raised {res[1:]}'))
            if res[0] == 'hang':
                vio.append((f'read_setting-terminates/{cfg["family"]}', sid))
            # (ET only: there the bulk read and the single read fetch the same registers; the ES bulk read decodes one AA55
            # settings blob, the single reads of the eco groups go to Modbus registers - not the same bytes)
            if bulk is not None and ids.count(sid) == 1 and sid != 'time' and cfg['family'] == 'ET':
                # what the single read makes of the very same registers is what the bulk read reports for the id
                want = _txt(res[1]) if res[0] == 'ok' and res[1] is not None else None if (res[0] == 'exc' and res[1] == 'ValueError') or res[0] == 'ok' else '?'
                if want != '?' and bulk.get(sid) != want:
                    vio.append((f'settings-data-value-is-the-single-reading/{cfg["family"]}',
                                f'{pass_}{" (after " + fname + ")" if pass_ != fname else ""}: {sid} is {bulk.get(sid)!r} in read_settings_data(), read_setting() gives {want!r}'))
    return vio, n


def job(j):
    cfg, fname, group = j[:3]
    prepoll = len(j) > 3 and j[3]
    vio, n = run_case(cfg, fname, group, prepoll)
    out = {}
    for key, cause in vio:
        if prepoll:
            key += '/after-polls' + (':' + prepoll if isinstance(prepoll, str) else '')
        out.setdefault(key, []).append(dict(key=key, clause=key.split('/')[0],
                                            replay=dict(kind='settings', cfg=cfg, fill=fname, prepoll=prepoll,
                                                        group=[group[0], group[1].hex()] if group else None),
                                            detail=dict(cause=cause)))
    res = []
    for key, lst in out.items():
        lst[0]['n'] = len(lst)
        res.append(lst[0])
    return n, res


def job_refuse_one(j):
    """The inverter refuses ONE settings register (ILLEGAL DATA ADDRESS) - every register of the table in turn: the bulk
    settings read still returns a dictionary (or fails with an InverterError), also when called again; single reads raise
    nothing but ValueError."""
    cfg, part, nparts = j
    probe = make_rig(cfg, fill=FILLS['ramp'])
    if probe.call(probe.inv.read_device_info)[0] != 'ok':
        return 0, []
    sets = [s for s in probe.inv.settings() if s.offset > 1000][part::nparts]
    vio = []
    n = 0
    for s0 in sets:
        r = make_rig(cfg, fill=FILLS['ramp'])
        inv, dev = r.inv, r.dev
        r.call(inv.read_device_info)
        dev.refused = list(dev.refused) + [(s0.offset, s0.offset)]
        for call in (1, 2):
            res = r.call(inv.read_settings_data)
            n += 1
            if res[0] == 'hang' or (res[0] == 'exc' and res[1] not in ('RequestRejectedException', 'RequestFailedException', 'MaxRetriesException')):
                vio.append((f'settings-data-total/{cfg["family"]}/{res[1] if res[0] == "exc" else res[0]}/one-register-refused',
                            f'register {s0.offset} ({s0.id_}) refused, call {call}: {str(res)[:100]}'))
        one = r.call(inv.read_setting, s0.id_)
        if one[0] == 'exc' and one[1] not in ('ValueError', 'RequestRejectedException'):
            vio.append((f'read_setting-only-ValueError/{cfg["family"]}/{one[1]}/one-register-refused', f'read_setting({s0.id_!r}): {one[1:]}'))
    # ... and runs of 4..6 settings that follow each other in settings() order are refused together: every listed id is
    # still reported (None for the refused ones), a streak of failures must not end the bulk read early
    allsets = [s for s in probe.inv.settings() if s.offset > 1000]
    for i in range(part, len(allsets), nparts):
        for run in (4, 6):
            grp = allsets[i:i + run]
            if len(grp) < run:
                continue
            r = make_rig(cfg, fill=FILLS['all-0000'])
            inv, dev = r.inv, r.dev
            r.call(inv.read_device_info)
            dev.refused = list(dev.refused) + [(s.offset, s.offset) for s in grp]
            before = [s.id_ for s in inv.settings()]
            res = r.call(inv.read_settings_data)
            n += 1
            if res[0] == 'ok':
                missing = [x for x in before if x not in res[1]]
                if missing:
                    vio.append((f'settings-data-every-id/{cfg["family"]}/several-registers-refused',
                                f'{run} settings from {grp[0].id_} on refused: {len(missing)} listed ids missing from the result, e.g. {missing[:3]}'))
            elif res[0] == 'hang' or res[1] not in ('RequestRejectedException', 'RequestFailedException', 'MaxRetriesException'):
                vio.append((f'settings-data-total/{cfg["family"]}/{res[1] if res[0] == "exc" else res[0]}/several-registers-refused', str(res)[:100]))
    out = {}
    for key, cause in vio:
        out.setdefault(key, []).append(dict(key=key, clause=key.split('/')[0], replay=dict(kind='refuse-one', cfg=cfg, part=part, nparts=nparts),
                                            detail=dict(cause=cause)))
    res = []
    for key, lst in out.items():
        lst[0]['n'] = len(lst)
        res.append(lst[0])
    return n, res


POLL_CFGS = [dict(family='ET', tag=t, power=p, refused=rf, battery_mode=bm)
             for t, p in (('ETU', 3000), ('ETU', 15000), ('ETT', 10000), ('25KET', 25000))
             for rf in ((), ('meter_ext2',), ('meter_ext', 'meter_ext2'), ('battery', 'mppt'), ('battery2',))
             for bm in (2, 0)] + \
            [dict(family='DT', tag=t, power=5000, refused=rf, battery_mode=0) for t in ('DTU', 'DSN') for rf in ((), ('meter',))]


def _healthy(a):
    """register content every sensor can interpret: a valid inverter clock (ET 35100.., DT 30100..), small values elsewhere"""
    clock = {0: 0x180A, 1: 0x030C, 2: 0x1E2D}
    for base in (35100, 30100):
        if base <= a <= base + 2:
            return clock[a - base]
    return (a * 7) % 1000


# register contents that change from poll to poll on one object: interpretable -> uninterpretable -> interpretable ...
CHANGING = {'changing-a': ('healthy', 'all-ffff', 'healthy', 'all-0000', 'healthy', 'ramp'),
            'changing-b': ('all-0000', 'healthy', 'healthy', 'all-6363', 'all-ffff', 'healthy')}


def job_polls(j):
    """Several polls of one configured object (capability fallbacks happen on the way): every call either fails with an
    InverterError or returns a dict that has every id of sensors(); sensors() itself and a single read keep working."""
    cfg, fname = j
    fills = dict(FILLS, healthy=_healthy)
    seq = CHANGING.get(fname, (fname,) * 4)
    r = make_rig(cfg, fill=fills[seq[0]])
    inv = r.inv
    if r.call(inv.read_device_info)[0] != 'ok':
        return 0, []
    vio = []
    n = 0
    for i in range(len(seq)):
        r.dev.rf.fill = fills[seq[i]]
        res = r.call(inv.read_runtime_data)
        n += 1
        ls = world.listed(inv)
        if ls.error:
            vio.append((f'sensors()-works/{cfg["family"]}', f'after poll {i + 1}: {ls.error}'))
            break
        if res[0] == 'exc':
            if res[1] not in ('RequestRejectedException', 'RequestFailedException', 'MaxRetriesException'):
                vio.append((f'poll-total/{cfg["family"]}/{res[1]}', f'poll {i + 1}: {res[1:]}'))
            continue
        if res[0] == 'ok':
            missing = [s.id_ for s in ls if s.id_ not in res[1]]
            if missing:
                vio.append((f'poll-reports-every-listed-id/{cfg["family"]}', f'poll {i + 1}: {len(missing)} listed ids missing, e.g. {missing[:3]}'))
        one = r.call(inv.read_sensor, ls[len(ls) // 2].id_)
        if one[0] == 'exc' and one[1] not in ('ValueError', 'RequestRejectedException', 'RequestFailedException', 'MaxRetriesException', 'NotImplementedError'):
            vio.append((f'single-read-total/{cfg["family"]}/{one[1]}', f'after poll {i + 1}: {one[1:]}'))
    out = {}
    for key, cause in vio:
        out.setdefault(key, []).append(dict(key=key, clause=key.split('/')[0], replay=dict(kind='polls', cfg=cfg, fill=fname),
                                            detail=dict(cause=cause, config=cfg)))
    res = []
    for key, lst in out.items():
        lst[0]['n'] = len(lst)
        res.append(lst[0])
    return n, res


def run_part(tier, seed, rep):
    jobs = [(c, f, None) for c in CFGS for f in FILLS] + [(c, f, None, pp) for c in CFGS for f in FILLS
                                                             for pp in ((True, 'no-battery', 'blocks-refused') if c['family'] == 'ET' else (True,))]
    # uninterpretable contents of each group setting, one at a time, in an otherwise harmless register file
    for c in CFGS:
        r = make_rig(c)
        r.call(r.inv.read_device_info)
        for s in r.inv.settings():
            if refdec.size_of(s) >= 6 and s.offset > 1000:
                bad = [b for b in own_values(s, False) if refdec.decode(s, b) is refdec.NOVALUE]
                step = max(1, len(bad) // (24 if tier == 'thorough' else 6))
                for b in bad[seed % step::step]:
                    jobs.append((c, 'all-0000', (s.id_, b)))
    total = 0
    for n, res in pmap(job_refuse_one, [(c, k, 4) for c in CFGS if c['family'] == 'ET' for k in range(4)]):      # (the statement covers the bulk read of ET and ES; ES has no per-register refusals)
        total += n
        rep.add_many(res)
    for n, res in pmap(job_polls, [(c, f) for c in POLL_CFGS for f in ('ramp', 'all-ffff', 'all-0000', 'changing-a', 'changing-b')], chunksize=2):
        total += n
        rep.add_many(res)
    for n, res in pmap(job, jobs, chunksize=2):
        total += n
        rep.add_many(res)
    return total


def replay(r):
    if r.get('kind') == 'refuse-one':
        cfg = r['cfg']
        cfg['refused'] = tuple(cfg['refused'])
        n, res = job_refuse_one((cfg, r['part'], r['nparts']))
        return dict(calls=n, violations=[(v['key'], v['detail']['cause']) for v in res])
    if r.get('kind') == 'polls':
        cfg = r['cfg']
        cfg['refused'] = tuple(cfg['refused'])
        n, res = job_polls((cfg, r['fill']))
        return dict(polls=n, violations=[(v['key'], v['detail']['cause']) for v in res])
    cfg = r['cfg']
    cfg['refused'] = tuple(cfg['refused'])
    if isinstance(cfg.get('firmware'), dict):
        cfg['firmware'] = bytes.fromhex(cfg['firmware']['hex'])
    g = (r['group'][0], bytes.fromhex(r['group'][1])) if r.get('group') else None
    vio, n = run_case(cfg, r['fill'], g, r.get('prepoll') or False)
    return dict(evaluations=n, violations=vio)
