"""C11 part 2: single-value / bulk settings reads through the device model (filled in with mc/devsim.py)."""


def run_part(tier, seed, rep):
    return 0


def replay(r):
    return dict(violations=[])
