"""C20 - inverter objects are independent; returned values do not change afterwards (DESIGN 3, C20)."""
from __future__ import annotations

import asyncio
import copy

from .. import world
from ..devsim import ModbusDevice, EsDevice, et_device_info, dt_device_info
from ..explore import Ctx, Stats, explore, pmap, h
from ..kernel import Kernel, KLoop
from ..sensor_enum import ECO_V1_BASE, SCHED_BASE

OM = world.goodwe.OperationMode
HOSTS = ('10.0.0.2', '10.0.0.3')

OPS = ['read_runtime_data', 'read_eco_1', 'read_scalar', 'write_scalar', 'write_eco', 'set_eco_charge', 'get_mode',
       'sensor_ids', 'setting_ids', 'read_optional', 'read_byte', 'write_byte']


def snap(v):
    """Snapshot of a value handed to the caller: everything a caller could look at later."""
    if isinstance(v, dict):
        return ('dict', tuple((k, snap(x)) for k, x in v.items()))
    if hasattr(v, '__dict__') and not isinstance(v, type):
        return ('obj', type(v).__name__, str(v), tuple(sorted((k, repr(x)) for k, x in vars(v).items() if not k.startswith('_'))))
    return ('val', repr(v))


def make_device(kind, variant):
    """variant 0/1: two simulated inverters with different register contents.  Kinds ending in '=eq': every register the
    kind does not set explicitly holds the SAME word (4) on both inverters, whatever their family - equal raw values meet
    different decoders."""
    eq = kind.endswith('=eq')
    lossy = '+lossy' in kind
    kind = kind.split('=')[0].replace('+ka', '').replace('+loops', '').replace('+r1', '').replace('+lossy', '').replace('+mute', '')
    if kind.startswith('ET'):
        d = ModbusDevice(0xF7, fill=(lambda a: 4) if eq else (lambda a: (a * 31 + 7) % 5000) if variant == 0 else (lambda a: (a * 17 + 1234) % 7000))
        et_device_info(d, serial=b'9010KETT000W0000' if kind == 'ET745' else b'9010KETU000W0000', rated=10000)
        d.rf.set(35184, 2)
        d.rf.set(47000, 3)
        # clocks: inverter 0 reports a valid date and time, inverter 1 an undecodable one (all zeros: month 0)
        clock = bytes([26, 10, 2, 12, 34, 56]) if variant == 0 else bytes(6)
        d.rf.setbytes(35100, clock)
        d.rf.setbytes(45200, clock)
        d.rf.setbytes(47515, ECO_V1_BASE[1 + variant])
        d.rf.setbytes(47547, [SCHED_BASE[1], SCHED_BASE[2], SCHED_BASE[4], SCHED_BASE[3]][(2 * variant + (kind == 'ET745')) % 4])
        for k in (2, 3, 4):
            d.rf.setbytes(47547 + 6 * (k - 1), SCHED_BASE[0])
            d.rf.setbytes(47515 + 4 * (k - 1), ECO_V1_BASE[0])
        d.rf.setbytes(47589, SCHED_BASE[2])
        if kind == 'ETv1':
            d.refused = [(47545, 47612), (47542, 47544)]
        if kind == 'ETnobat':
            d.refused = [(37000, 37023), (39000, 39021), (35301, 35361), (36045, 36124)]
            et_device_info(d, serial=b'9010KETU000W0000', rated=25000)
        if kind == 'ETfrag':
            d.fragment_at = 7       # every answer arrives in two datagrams
        if kind == 'ETrej':
            d.refused = [(47500, 47500)]
        if kind == 'ETunset':
            d.rf.setbytes(47547, b'\xff' * 12)      # group 1 never programmed (valid on/off byte, fields fail validation)
        if kind == 'ETunset55':
            d.rf.setbytes(47547, bytes.fromhex('0000173b55ff00640064ffff'))   # 'not set' marker 0x55 in the on/off byte
        if kind == 'ETbad':
            d.rf.setbytes(47547, bytes([99] * 12))    # stored group 1 is undecodable
        return 'ET', d
    if kind.startswith('DT'):
        d = ModbusDevice(0x7F, fill=(lambda a: 4) if eq else (lambda a: (a * 13 + 5) % 3000) if variant == 0 else (lambda a: (a * 29 + 77) % 4000))
        dt_device_info(d, serial=b'9003KDSN000W0000' if kind == 'DT1' else b'9010KDTU000W0000')
        clock = bytes([26, 10, 2, 12, 34, 56]) if variant == 0 else bytes(6)
        d.rf.setbytes(30100, clock)
        d.rf.setbytes(40313, clock)
        if kind == 'DTrej':
            d.refused = [(40362, 40362)]
        if kind == 'DTnometer':
            from ..devsim import DT_OPTIONAL
            d.refused = list(DT_OPTIONAL['meter'])      # (same serial number as 'DT': e.g. a replaced unit, or a clone)
        return 'DT', d
    d = EsDevice(firmware=b'2222E' if kind == 'ESv2' else b'1414E')
    d.lossy = lossy
    for i in range(len(d.runtime)):
        d.runtime[i] = ((i * (7 if variant == 0 else 11) + 3) & 0x7F) if not eq else (4 if i % 2 else 0)
    d.settings[66:68] = b'\x00\x03'
    d.rf.setbytes(1793, ECO_V1_BASE[1 + variant])
    d.rf.setbytes(47547, SCHED_BASE[1] if variant == 0 else SCHED_BASE[2])
    for k in (2, 3, 4):
        d.rf.setbytes(1793 + 4 * (k - 1), ECO_V1_BASE[0])
        d.rf.setbytes(47547 + 6 * (k - 1), SCHED_BASE[0])
    return 'ES', d


def do_op(inv, fam, op):
    if op == 'read_runtime_data':
        return inv.read_runtime_data()
    if op == 'read_eco_1':
        return inv.read_setting('eco_mode_1') if fam != 'DT' else inv.read_setting('time')
    if op == 'read_scalar':
        return inv.read_setting('grid_export_limit')
    if op == 'write_scalar':
        return inv.write_setting('grid_export_limit', 1234) if fam != 'ES' else inv.set_ongrid_battery_dod(30)
    if op == 'write_eco':
        if fam == 'DT':
            return inv.write_setting('shadow_scan_pv1', 1)
        v2 = type(inv._settings['eco_mode_1']).__name__ != 'EcoModeV1'
        return inv.write_setting('eco_mode_1', bytes.fromhex('0000173bff7fffce00500000') if v2 else bytes.fromhex('0000173bffceff7f'))
    if op == 'set_eco_charge':
        return inv.set_operation_mode(OM.ECO_CHARGE, 45, 80)
    if op == 'get_mode':
        return inv.get_operation_mode()
    if op == 'read_optional':
        return inv.read_setting({'ET': 'battery_soc_protection', 'DT': 'shadow_scan_pv3', 'ES': 'backup_supply'}[fam])
    if op == 'read_byte':       # a one-byte setting: shares its 16-bit register with a neighbour (read-modify-write on ET)
        return inv.read_setting('eco_mode_1_switch') if fam != 'DT' else inv.read_setting('shadow_scan_pv1')
    if op == 'write_byte':
        return inv.write_setting('eco_mode_1_switch', 0) if fam != 'DT' else inv.write_setting('shadow_scan_pv1', 0)
    if op in ('sensor_ids', 'setting_ids'):
        async def ids():
            return [x.id_ for x in (inv.sensors() if op == 'sensor_ids' else inv.settings())]
        return ids()
    raise ValueError(op)


class Gate:
    """Parks device answers; when every runnable task is blocked, chooses whose answer is delivered next."""

    def __init__(self, kern, ctx):
        self.kern, self.ctx = kern, ctx
        self.pending = {}    # owner -> (sock, frame)
        self.order = []
        kern.idle_hook = self.release

    def park(self, owner, sock, frame):
        self.pending.setdefault(owner, []).append((sock, frame))     # pieces of one owner stay in order
        self.order.append(owner)

    def release(self):
        if not self.pending:
            return False
        owners = list(dict.fromkeys(o for o in self.order if o in self.pending))
        who = owners[0] if len(owners) == 1 or self.ctx is None else self.ctx.choose('deliver', owners)
        sock, frame = self.pending[who].pop(0)
        if not self.pending[who]:
            del self.pending[who]
        self.order.remove(who)
        if not sock.closed:
            sock.rx.append(('data', frame))
        return True


def run_pair(kinds, seqs, ctx, solo=None, transport='udp'):
    """Two inverter objects, two devices, one loop.  solo=None: both run; solo=0/1: only that object's calls run."""
    world.reset()
    devs = []
    fams = []
    for i, k in enumerate(kinds):
        fam, d = make_device(k, i)
        devs.append(d)
        fams.append(fam)
    kern = Kernel(peers={HOSTS[0]: devs[0], HOSTS[1]: devs[1]}, ctx=ctx)
    loop = KLoop(kern=kern)
    gate = Gate(kern, ctx)
    for i, d in enumerate(devs):
        d.gate_owner = i
        orig = d.kern.at

    # devices park their answers in the gate instead of scheduling them by time
    class Parker:
        def __init__(self, dev, owner):
            self.dev, self.owner = dev, owner

    def patch(dev, owner):
        dev.delay_fn = None
        real_reply_time = dev.kern.at

        def at(when, sock, item, owner=owner):
            if sock is not None and not callable(item) and item[0] == 'data':
                gate.park(owner, sock, item[1])
            else:
                real_reply_time(when, sock, item)
        return at
    ats = [patch(d, i) for i, d in enumerate(devs)]

    class KProxy:
        """what a device sees as its kernel: same clock, answers go to the gate"""

        def __init__(self, i):
            self.i = i

        @property
        def now(self):
            return kern.now

        def at(self, when, sock, item):
            ats[self.i](when, sock, item)
    for i, d in enumerate(devs):
        d.kern = KProxy(i)
    ports = [502 if (transport == 'tcp' or k.split('+')[0].split('=')[0].endswith('tcp')) else 8899 for k in kinds]
    # (alone means alone: in the solo run the other object is not even constructed)
    invs = [world.FAMILIES[f](HOSTS[i], ports[i], 0x11 if kinds[i].split('+')[0].split('=')[0].endswith('addr') else 0, 1,
                              1 if '+r1' in kinds[i] else 0) if (solo is None or solo == i) else None for i, f in enumerate(fams)]
    for i, k in enumerate(kinds):
        if invs[i] is None:
            continue
        if k.endswith('addr'):
            devs[i].unit = 0x11
        if '+ka' in k:
            invs[i].set_keep_alive(True)
    results = [[], []]
    per_loop = any('+loops' in k for k in kinds)     # every operation step in its own asyncio.run() (the objects live on)

    async def runner(i):
        for op in seqs[i]:
            try:
                v = await do_op(invs[i], fams[i], op)
                results[i].append([op, 'ok', snap(v), v])
            except BaseException as e:  # noqa: BLE001
                results[i].append([op, 'exc', (type(e).__name__, str(getattr(e, 'message', '') or e)[:60], getattr(e, 'consecutive_failures_count', None)), None])

    async def setup():
        for i in (0, 1):
            if solo is None or solo == i:      # alone means alone: the other object does not even identify itself
                await invs[i].read_device_info()

    def mute():
        for i, k in enumerate(kinds):
            if '+mute' in k:
                devs[i].silent = True        # answers while the object identifies itself, then goes silent for good

    async def main():
        await setup()
        mute()
        for d in devs:
            d.sent.clear()
            d.log.clear()
        tasks = [runner(i) for i in (0, 1) if solo is None or solo == i]
        await asyncio.gather(*tasks)

    async def step(i, op):
        try:
            v = await do_op(invs[i], fams[i], op)
            results[i].append([op, 'ok', snap(v), v])
        except BaseException as e:  # noqa: BLE001
            results[i].append([op, 'exc', (type(e).__name__, str(getattr(e, 'message', '') or e)[:60], getattr(e, 'consecutive_failures_count', None)), None])
    kern.tx_cap = 4000
    if per_loop:
        st, res = loop.run(setup())
        mute()
        for d in devs:
            d.sent.clear()
            d.log.clear()
        for k in range(max(len(s) for s in seqs)):
            if st == 'hang':
                break
            loop.shutdown_like_asyncio_run()
            loop = KLoop(kern=kern)

            async def both(k=k):
                # in the new loop object 1 is used first, object 0 after it
                for i in (1, 0):
                    if (solo is None or solo == i) and k < len(seqs[i]):
                        await step(i, seqs[i][k])
            st, res = loop.run(both())
    else:
        st, res = loop.run(main())
    hang = st == 'hang'
    obs = []
    for i in (0, 1):
        reqs = [(d[2:] if ports[i] == 502 else d).hex() for _, _, d in devs[i].sent]
        outs = [(r[0], r[1], r[2]) for r in results[i]]
        after = [(r[0], r[1], snap(r[3]) if r[1] == 'ok' else r[2]) for r in results[i]]
        obs.append(dict(requests=reqs, results=outs, after=after))
    return obs, hang


def compare(kinds, seqs, inter, solos):
    vio = []
    for i in (0, 1):
        a, s = inter[i], solos[i][i]
        if a['requests'] != s['requests']:
            k = next((j for j, (x, y) in enumerate(zip(a['requests'], s['requests'])) if x != y), min(len(a['requests']), len(s['requests'])))
            vio.append((f'same-requests-as-alone/{kinds[i]}-with-{kinds[1 - i]}',
                        f'object {i} ({kinds[i]}) ops {seqs[i]}: request #{k} differs from the solo run '
                        f'({a["requests"][k][:40] if k < len(a["requests"]) else "-"} vs {s["requests"][k][:40] if k < len(s["requests"]) else "-"})'))
        if a['results'] != s['results']:
            k = next((j for j, (x, y) in enumerate(zip(a['results'], s['results'])) if x != y), 0)
            vio.append((f'same-results-as-alone/{kinds[i]}-with-{kinds[1 - i]}',
                        f'object {i} ({kinds[i]}) ops {seqs[i]}: result of {a["results"][k][0] if k < len(a["results"]) else "?"} differs from the solo run'))
        for (op, st, s0), (_, _, s1) in zip(a['results'], a['after']):
            if st == 'ok' and s0 != s1:
                t = s0[1] if s0[0] == 'obj' else s0[0]
                vio.append((f'value-keeps-its-content/{t}',
                            f'object {i} ({kinds[i]}): value returned by {op} changed after later calls: {str(s0)[:80]} -> {str(s1)[:80]}'))
    return vio


def job(j):
    kinds, seqs, devs_bound, transport = j
    st = Stats()
    solos = [run_pair(kinds, seqs, None, solo=i, transport=transport)[0] for i in (0, 1)]
    vio = {}
    # a value must also keep its content in the solo run (single-object case)
    for i in (0, 1):
        for (op, s_, s0), (_, _, s1) in zip(solos[i][i]['results'], solos[i][i]['after']):
            if s_ == 'ok' and s0 != s1:
                t = s0[1] if s0[0] == 'obj' else s0[0]
                vio.setdefault(f'value-keeps-its-content/{t}/single-object', []).append(((), f'{kinds[i]} alone: value of {op} changed after later calls on the same object'))

    def run(ctx):
        return run_pair(kinds, seqs, ctx, transport=transport)

    def on_exec(ctx, res):
        obs, hang = res
        st.note(ctx, (hang, tuple(len(o['requests']) for o in obs)))
        if hang:
            vio.setdefault('terminates', []).append((ctx.choices, 'hang'))
            return
        for key, cause in compare(kinds, seqs, obs, solos):
            vio.setdefault(key, []).append((ctx.choices, cause))
    explore(run, deviations=devs_bound, depth=40, on_exec=on_exec)
    out = []
    for key, lst in vio.items():
        lst.sort(key=lambda x: (sum(1 for c in x[0] if c), len(x[0])))
        choices, cause = lst[0]
        out.append(dict(key=key, clause=key.split('/')[0], n=len(lst),
                        replay=dict(kinds=list(kinds), seqs=[list(s) for s in seqs], choices=list(choices), transport=transport),
                        detail=dict(cause=cause, ops=[list(s) for s in seqs], interleaving=list(choices))))
    st.violations = out
    if not st.samples:
        st.samples.append(dict(pair=list(kinds), ops=[list(s) for s in seqs]))
    return st


PAIRS = [('ET', 'ET'), ('ET745', 'ET'), ('ETbad', 'ET745'), ('ETnobat', 'ET'), ('ETv1', 'ET'), ('ETrej', 'ET'),
         ('DT', 'DT1'), ('DTrej', 'DT'), ('DT1', 'DT1'), ('ES', 'ESv2'), ('ETfrag', 'ETfrag'), ('ETfrag', 'DT'), ('ET', 'ETtcp'), ('ET', 'ETaddr'), ('ET', 'ESv2'), ('ET', 'DT'), ('ES', 'ES'), ('ETv1', 'ES'), ('ET745', 'ESv2'),
         ('ET=eq', 'DT=eq'), ('DT=eq', 'ET=eq'), ('ET=eq', 'ES=eq'), ('ES=eq', 'DT=eq'), ('ET=eq', 'ET745=eq')]
# long-lived objects used from successive event loops (keep-alive on / off): two-step sequences, one loop per step
PAIRS += [('ES+lossy+r1', 'ES+lossy+r1'), ('ES+lossy+r1', 'ESv2+r1'), ('ETunset', 'ET745'), ('ET745', 'ETunset'), ('ETunset55', 'ET745'), ('ETunset', 'ETv1'), ('DTnometer', 'DT'), ('DT', 'DTnometer'), ('DTnometer', 'DTnometer')]
# an inverter that stops answering: its object's failures (and the failure count they carry) are its own
MUTE_PAIRS = [('ET+mute+r1', 'ET+mute+r1'), ('ET+mute', 'DT'), ('DT', 'ES+mute'), ('ES+mute', 'ES+mute+r1'), ('DT+mute', 'ET')]
LOOP_PAIRS = [('ET+ka+loops', 'DT+ka+loops'), ('ET+ka+loops', 'ET+loops'), ('DT+ka+loops', 'ES+ka+loops'), ('ET+ka+loops', 'ETtcp+ka+loops')]


def run(tier, seed, rep):
    jobs = []
    for kinds in PAIRS:
        for a in OPS:
            for b in OPS:
                jobs.append((kinds, ((a,), (b,)), 2 if tier == 'quick' else 4, 'udp'))
        if tier == 'thorough':
            for a1 in OPS:
                for a2 in OPS:
                    for b1 in ('read_eco_1', 'set_eco_charge', 'write_eco', 'read_runtime_data'):
                        for b2 in ('read_eco_1', 'set_eco_charge', 'get_mode'):
                            jobs.append((kinds, ((a1, a2), (b1, b2)), 2, 'udp'))
        else:
            for a1, a2 in (('read_eco_1', 'set_eco_charge'), ('set_eco_charge', 'get_mode'), ('read_eco_1', 'read_eco_1'),
                           ('read_runtime_data', 'write_eco')):
                for b1, b2 in (('set_eco_charge', 'read_eco_1'), ('read_eco_1', 'get_mode')):
                    jobs.append((kinds, ((a1, a2), (b1, b2)), 1, 'udp'))
    for a in OPS:
        for b in ('read_runtime_data', 'write_scalar', 'set_eco_charge'):
            jobs.append((('ET', 'ET'), ((a,), (b,)), 2, 'tcp'))
    # one object's single read of a one-byte setting completes BEFORE the other object's write of it starts (a write that
    # begins together with the read has already taken its decisions): the write is the second call of its object
    for kinds in PAIRS:
        for first in ('read_scalar', 'read_byte', 'get_mode'):
            jobs.append((kinds, (('read_byte',), (first, 'write_byte')), 2, 'udp'))
            jobs.append((kinds, (('read_byte', 'write_byte'), (first, 'write_byte')), 1, 'udp'))
    for kinds in MUTE_PAIRS:
        for a in ('read_runtime_data', 'read_scalar', 'write_scalar'):
            for b in ('read_runtime_data', 'read_scalar'):
                jobs.append((kinds, ((a, b), (b, a)), 1, 'udp'))
                jobs.append((kinds, ((a, b, a), (b,)), 1, 'udp'))
    for kinds in LOOP_PAIRS:
        for a in ('read_runtime_data', 'read_scalar', 'write_scalar'):
            for b in ('read_runtime_data', 'read_scalar'):
                jobs.append((kinds, ((a, b), (b, a)), 0, 'udp'))
    k = seed % len(jobs)
    jobs = jobs[k:] + jobs[:k]
    total = Stats()
    for st in pmap(job, jobs, chunksize=2):
        total.merge(st)
    rep.add_many(total.violations)
    cov = dict(states=max(len(total.outcomes), 1) * len(jobs), transitions=total.choice_points + total.executions,
               executions=total.executions, traces_validated_against_impl=total.executions, op_sequence_pairs=len(jobs),
               interleaving_choice_points=total.choice_points, exhaustive=not total.capped,
               bound='pairs of inverter objects ' + str(PAIRS) + ' x every pair of single operations (7 x 7) with every '
                     'request-level interleaving up to ' + ('4' if tier == 'thorough' else '2') + ' deviations from FIFO '
                     'delivery, plus two-operation sequences (2 deviations' + (' thorough' if tier == 'thorough' else ', selected pairs') +
                     '); differential oracle against the solo run of each sequence; values re-snapshotted at the end',
               state_definition='states = outcome classes x operation-sequence pairs; transitions = executions + delivery choices',
               samples=total.samples[:3])
    return dict(level='model_checking', coverage=cov,
                assumptions=['interleaving granularity = requests: when both objects wait for an answer the explorer chooses '
                             'whose answer is delivered first (all computation takes zero virtual time)',
                             'two device models with different register contents (mc/devsim.py)'])


def replay(r):
    kinds, seqs = tuple(r['kinds']), tuple(tuple(s) for s in r['seqs'])
    solos = [run_pair(kinds, seqs, None, solo=i, transport=r['transport'])[0] for i in (0, 1)]
    obs, hang = run_pair(kinds, seqs, Ctx(r['choices']), transport=r['transport'])
    vio = compare(kinds, seqs, obs, solos)
    for i in (0, 1):
        for (op, s_, s0), (_, _, s1) in zip(solos[i][i]['results'], solos[i][i]['after']):
            if s_ == 'ok' and s0 != s1:
                vio.append(('value-keeps-its-content/single-object', f'{kinds[i]} alone: {op}'))
    return dict(hang=hang, violations=vio)
