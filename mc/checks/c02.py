"""C02 - every conforming response frame is accepted (DESIGN 3, C02)."""
from __future__ import annotations

import struct

from .. import world, wire
from ..explore import pmap, h
from ..kernel import KLoop
from ..peer import PlanPeer, D0
from ..proto import make_protocol, _exec

gp = world.gp
ex = world.goodwe.exceptions
AA55_TYPES = [('010200', '0182'), ('010600', '0186'), ('010900', '0189'), ('011a03070104', '019A'),
              ('02390507010100ff', '02B9'), ('03590100', '03D9')]


def accept(cmd, data):
    try:
        r = cmd.validator(data)
        return 'accept' if r is True else f'returned {r!r}'
    except BaseException as e:  # noqa: BLE001
        return f'raised {type(e).__name__}'


def payload_class(pl):
    if not pl:
        return 'empty'
    if all(b == 0xFF for b in pl):
        return 'all-ff'
    if all(b == 0 for b in pl):
        return 'all-00'
    if pl.count(0x11) >= len(pl) - 4 and len(pl) >= 8:
        core = bytes(b for b in pl if b != 0x11)
        return f'contains-{core.hex()}'
    return 'mixed'


def job(j):
    kind = j[0]
    vio = {}
    n = 0
    nontrivial = set()

    def bad(key, clause, replay, cause):
        lst = vio.setdefault(key, [])
        lst.append(dict(key=key, clause=clause, replay=replay, detail=dict(cause=cause)))

    if kind == 'read':
        _, framing, counts = j
        for c in counts:
            for unit in (range(256) if c in (1, 125) else (0xF7,)):
                R = gp.ModbusRtuReadCommand if framing == 'rtu' else gp.ModbusTcpReadCommand
                cmd = R(unit, 0x891C, c)
                fills = range(256) if unit == 0xF7 else (0x00, 0xFF, 0xA5)
                for fill in fills:
                    pl = bytes([fill]) * (2 * c)
                    for trail in ((b'', b'\x00', b'\x01\x02', bytes(7)) if framing == 'rtu' else (b'',)):
                        f = wire.rtu_read_resp(unit, pl, trail) if framing == 'rtu' else wire.tcp_read_resp(b'\x12\x34', unit, pl)
                        r = accept(cmd, f)
                        n += 1
                        nontrivial.add(h((framing, c, unit, fill, len(trail))))
                        if r != 'accept':
                            bad(f'refused/{framing}/read/{payload_class(pl)}/trailing={len(trail)}', 'conforming frame refused',
                                dict(part='E', framing=framing, spec=['read', unit, 0x891C, c], data=f.hex()), r)
            if c in (1, 61, 125):
                cmd = (gp.ModbusRtuReadCommand if framing == 'rtu' else gp.ModbusTcpReadCommand)(0xF7, 0x891C, c)
                for bit in range(16 * c):
                    x = bytearray(2 * c)
                    x[bit // 8] = 1 << (bit % 8)
                    f = wire.rtu_read_resp(0xF7, bytes(x)) if framing == 'rtu' else wire.tcp_read_resp(b'\0\1', 0xF7, bytes(x))
                    r = accept(cmd, f)
                    n += 1
                    if r != 'accept':
                        bad(f'refused/{framing}/read/walking-one', 'conforming frame refused',
                            dict(part='E', framing=framing, spec=['read', 0xF7, 0x891C, c], data=f.hex()), r)
    elif kind == 'write':
        _, framing, mode = j
        W = gp.ModbusRtuWriteCommand if framing == 'rtu' else gp.ModbusTcpWriteCommand
        M = gp.ModbusRtuWriteMultiCommand if framing == 'rtu' else gp.ModbusTcpWriteMultiCommand
        bvals = (-32768, -1, 0, 1, 255, 256, 32767)
        bregs = (0, 1, 0x00FF, 0x0100, 0x7FFF, 0x8000, 0xFFFF, 47511)
        pairs = ((r, v) for r in range(65536) for v in bvals) if mode == 'regs' else \
            ((r, v) for v in range(-32768, 32768) for r in bregs)
        for reg, val in pairs:
            cmd = W(0xF7, reg, val)
            f = wire.rtu_write_resp(0xF7, 6, reg, val) if framing == 'rtu' else wire.tcp_write_resp(b'\0\1', 0xF7, 6, reg, val)
            r = accept(cmd, f)
            n += 1
            if r != 'accept':
                cls = 'negative' if val < 0 else 'non-negative'
                bad(f'refused/{framing}/write/{cls}', 'conforming echo refused',
                    dict(part='E', framing=framing, spec=['write', 0xF7, reg, val], data=f.hex()), r)
        nontrivial.add(h((framing, mode)))
        if mode == 'regs':
            for reg in range(0, 65536, 257):
                for nreg in (1, 2, 4, 6, 123):
                    cmd = M(0xF7, reg, bytes(2 * nreg))
                    f = wire.rtu_write_resp(0xF7, 16, reg, nreg) if framing == 'rtu' else wire.tcp_write_resp(b'\0\1', 0xF7, 16, reg, nreg)
                    r = accept(cmd, f)
                    n += 1
                    if r != 'accept':
                        bad(f'refused/{framing}/multi', 'conforming echo refused',
                            dict(part='E', framing=framing, spec=['multi', 0xF7, reg, nreg], data=f.hex()), r)
    elif kind == 'aa55':
        _, (req, rt), lens = j
        cmd = gp.Aa55ProtocolCommand(req, rt)
        for ln in lens:
            for fill in range(256):
                pl = bytes([fill]) * ln
                f = wire.aa55_resp(rt, pl)
                r = accept(cmd, f)
                n += 1
                nontrivial.add(h((rt, ln, fill)))
                if r != 'accept':
                    s = wire.sum16(f[:-2])
                    bad(f"refused/aa55/{'checksum>=0x8000' if s >= 0x8000 else 'checksum<0x8000'}", 'conforming frame refused',
                        dict(part='E', framing='aa55', spec=['aa55', req, rt], data=f.hex()), f'{r}; checksum {s:#06x}')
    res = []
    for key, lst in vio.items():
        v = lst[0]
        v['n'] = len(lst)
        res.append(v)
    return n, res, len(nontrivial)


# ------------------------------------------------------------------ through the transports

def run_k(framing, c, fill, trail, ka, host=None, T=1):
    world.reset()
    pl = fill if isinstance(fill, bytes) else (bytes([fill]) * (2 * c)) if fill is not None else bytes((i * 13 + 5) & 0xFF for i in range(2 * c))

    def plan(k, req, now):
        if framing == 'tcp':
            return [(D0, ('data', wire.tcp_read_resp(req[:2], 0xF7, pl)))]
        if framing == 'rtu':
            return [(D0, ('data', wire.rtu_read_resp(0xF7, pl, trail)))]
        return [(D0, ('data', wire.aa55_resp('0186', pl)))]
    peer = PlanPeer(plan)
    loop = KLoop(peer)
    p = make_protocol('tcp' if framing == 'tcp' else 'udp', T, 0, ka, host=host)
    cmd = gp.Aa55ProtocolCommand("010600", "0186") if framing == 'aa55' else p.read_command(0x891C, c)

    async def main():
        try:
            r = await cmd.execute(p)
            return ('ok', r.response_data(), r.raw_data)
        except BaseException as e:  # noqa: BLE001
            return ('exc', type(e).__name__)
    st, res = loop.run(main())
    vio = []
    if st == 'hang' or res[0] != 'ok':
        s = wire.sum16(wire.aa55_resp('0186', pl)[:-2]) if framing == 'aa55' else 0
        vio.append((f"request-succeeds/{framing}/{payload_class(pl)}" + ('/checksum>=0x8000' if s >= 0x8000 else '') + (f'/timeout={T}' if T != 1 else ''),
                    f'{res[:2]} transmissions={len(peer.sent)}'))
    elif res[1] != pl:
        vio.append((f'exact-payload/{framing}/trailing={len(trail)}',
                    f'response_data() has {len(res[1])} bytes, payload served has {len(pl)}'))
    return vio, res


def run_repeat(framing, kind, ka, tx_start=None):
    """the same request several times on ONE protocol object, the inverter's registers unchanged: every one of the
    byte-identical conforming answers must be accepted.  tx_start: (Modbus/TCP) the process has made that many
    transmissions before - the transaction ids of the four requests lie around the 16-bit sign boundary / the wrap."""
    world.reset(tx=tx_start)
    if tx_start is not None and not hasattr(gp, '_modbus_tcp_tx'):
        # the counter is not reachable as a module attribute: walk up to the start state by building frames
        c0 = make_protocol('tcp', 1, 0, False).read_command(0, 1)
        for _ in range(70000):
            if int.from_bytes(c0.request_bytes()[:2], 'big') == tx_start:
                break
    pl = bytes((i * 5 + 1) & 0xFF for i in range(12))

    def plan(k, req, now):
        if framing == 'aa55':
            return [(D0, ('data', wire.aa55_resp('0186', pl)))]
        rq = wire.parse_request(req)
        if rq['fn'] == 3:
            return [(D0, ('data', wire.tcp_read_resp(req[:2], 0xF7, pl) if framing == 'tcp' else wire.rtu_read_resp(0xF7, pl)))]
        x = rq['value'] if rq['fn'] == 6 else rq['count']
        return [(D0, ('data', wire.tcp_write_resp(req[:2], 0xF7, rq['fn'], rq['reg'], x) if framing == 'tcp'
                      else wire.rtu_write_resp(0xF7, rq['fn'], rq['reg'], x)))]
    peer = PlanPeer(plan)
    loop = KLoop(peer)
    p = make_protocol('tcp' if framing == 'tcp' else 'udp', 1, 1, ka)
    vio = []
    for i in range(4):
        if framing == 'aa55':
            cmd = gp.Aa55ProtocolCommand("010600", "0186")
        else:
            cmd = p.read_command(0x891C, 6) if kind == 'read' else p.write_command(47510, 1234) if kind == 'write' \
                else p.write_multi_command(47515, bytes(8))
        n0 = len(peer.sent)
        st, res = loop.run(_exec(cmd, p))
        if st == 'hang' or res[0] != 'ok' or len(peer.sent) - n0 != 1:
            vio.append((f'identical-answer-accepted-again/{framing}/{kind}' + ('/after-a-long-history-of-transmissions' if tx_start is not None else ''),
                        f'request #{i + 1} (same as before, same answer): {res[:2]} after {len(peer.sent) - n0} transmissions' +
                        (f' (transaction id {peer.sent[-1][2][:2].hex()})' if tx_start is not None and peer.sent else '')))
            break
    return vio


def run_after_lost_remainder(framing, ca, cb, ka):
    """Request A (count ca) receives only the head of its answer, times out, its retransmission is answered in full.
    Request B (count cb) is then answered by ONE conforming frame whose length happens to equal what A's fragment was
    still missing.  B's frame is conforming: it must be accepted at once."""
    world.reset()
    La = 2 * ca + (7 if framing == 'rtu' else 9)
    Lb = 2 * cb + (7 if framing == 'rtu' else 9)
    p = La - Lb
    if p < (5 if framing == 'rtu' else 9):
        return None
    state = dict(n=0)

    def plan(k, req, now):
        rq = wire.parse_request(req)
        pl = bytes((3 * i + rq['count']) & 0xFF for i in range(2 * rq['count']))
        f = wire.tcp_read_resp(req[:2], 0xF7, pl) if framing == 'tcp' else wire.rtu_read_resp(0xF7, pl)
        state['n'] += 1
        if state['n'] == 1:
            return [(D0, ('data', f[:p]))]
        return [(D0, ('data', f))]
    peer = PlanPeer(plan)
    loop = KLoop(peer)
    pr = make_protocol('tcp' if framing == 'tcp' else 'udp', 1, 1, ka)
    loop.run(_exec(pr.read_command(0x891C, ca), pr))
    n0 = len(peer.sent)
    st, res = loop.run(_exec(pr.read_command(0x9088, cb), pr))
    if st == 'hang' or res[0] != 'ok' or len(peer.sent) - n0 != 1:
        return [(f'conforming-frame-after-lost-remainder/{framing}/ka={int(ka)}',
                 f'counts {ca} then {cb}: {res[:2]} after {len(peer.sent) - n0} transmissions')]
    return []


def healthy_api_job(j):
    """Every public call of an inverter object against a healthy, conforming inverter model (no faults, nothing refused
    that the call needs): each request the call makes is answered by a conforming frame, so no call may fail with
    RequestFailedException / MaxRetriesException (= some conforming answer was refused) - whatever command and response
    type the library uses for it."""
    cfg, transport = j[:2]
    mode = j[2] if len(j) > 2 else ''
    from ..configs import make_rig
    from .c17 import domain, in_scope
    OM = world.goodwe.OperationMode
    r = make_rig(cfg, transport, fill=lambda a: 0, R=0, ka='ka' in mode)
    inv = r.inv
    out = []
    n = 0

    def call(name, fn, *a):
        nonlocal n
        if 'loop-per-call' in mode:
            r.newloop()         # every call in its own asyncio.run(), the object lives on (keep-alive on or off)
        res = r.call(fn, *a)
        n += 1
        if res[0] == 'exc' and res[1] in ('RequestFailedException', 'MaxRetriesException'):
            out.append((name, f'{name}{a if len(str(a)) < 60 else ""} -> {res[1]} on a healthy inverter model'))
        return res
    if call('read_device_info', inv.read_device_info)[0] != 'ok':
        return n, out
    call('read_runtime_data', inv.read_runtime_data)
    call('read_settings_data', inv.read_settings_data)
    for s in inv.settings():
        call('read_setting', inv.read_setting, s.id_)
        d = domain(s, False) if in_scope(cfg, s) else None
        if d:
            call('write_setting', inv.write_setting, s.id_, d[len(d) // 2])
    call('get_grid_export_limit', inv.get_grid_export_limit)
    call('set_grid_export_limit', inv.set_grid_export_limit, 100)
    if cfg['family'] != 'DT':
        modes = call('get_operation_modes', inv.get_operation_modes, True)
        for m in (modes[1] if modes[0] == 'ok' else ()):
            call('set_operation_mode', inv.set_operation_mode, m, 40, 70)
            call('get_operation_mode', inv.get_operation_mode)
        call('set_ongrid_battery_dod', inv.set_ongrid_battery_dod, 40)
        call('get_ongrid_battery_dod', inv.get_ongrid_battery_dod)
    for s in inv.sensors()[:3]:
        call('read_sensor', inv.read_sensor, s.id_)
    return n, out


def run_pair(cfg):
    """Two protocol objects in one process with overlapping requests: object A's conforming answer arrives after
    `delay`, object B transmits (and is answered) `b_at` after A started.  A's conforming frame is accepted when it
    arrives - one transmission, the frame itself - whatever B does in between."""
    import asyncio
    world.reset()
    tr, T, R = cfg['transport'], 1, cfg['R']
    framing = 'tcp' if tr == 'tcp' else 'rtu'

    def answer(req):
        rq = wire.parse_request(req)
        pl = bytes((5 * i + rq['reg']) & 0xFF for i in range(2 * rq['count']))
        return wire.tcp_read_resp(req[:2], 0xF7, pl) if framing == 'tcp' else wire.rtu_read_resp(0xF7, pl)

    def plan(k, req, now):
        rq = wire.parse_request(req)
        return [((cfg['delay'] * T) if rq['reg'] == 100 else D0, ('data', answer(req)))]
    peer = PlanPeer(plan)
    loop = KLoop(peer)
    pa, pb = make_protocol(tr, T, R, cfg['ka']), make_protocol(tr, T, R, cfg['ka'])
    out = {}

    async def a():
        t0 = loop.time()
        out['a'] = await _exec(pa.read_command(100, 3), pa)
        out['ta'] = loop.time() - t0

    async def b():
        await asyncio.sleep(cfg['b_at'] * T)
        for _ in range(cfg['b_requests']):
            out['b'] = await _exec(pb.read_command(200, 2), pb)

    async def both():
        await asyncio.gather(a(), b())
    st, _ = loop.run(both())
    ra = out.get('a')
    sent_a = [d for t, fd, d, _ in peer.sent if wire.parse_request(d)['reg'] == 100]
    if st == 'hang' or ra is None:
        return [('terminates', 'hang')]
    vio = []
    if ra[0] != 'ok' or len(sent_a) != 1 or ra[1] != answer(sent_a[0]):
        vio.append(('conforming-frame-accepted-while-another-object-is-active',
                    f'object A: {ra[0]} {ra[1] if ra[0] != "ok" else ""} after {len(sent_a)} transmission(s)'))
    rb = out.get('b')
    if rb is None or rb[0] != 'ok':
        vio.append(('conforming-frame-accepted-while-another-object-is-active', f'object B: {rb[:2] if rb else None}'))
    return vio


def pair_configs():
    for tr in ('udp', 'tcp'):
        for ka in (False, True):
            for R in (0, 1):
                for delay in (0.5, 0.9):
                    for b_at in (0.0, 0.2, 0.45):
                        for nb in (1, 2):
                            yield dict(transport=tr, ka=ka, R=R, delay=delay, b_at=b_at, b_requests=nb)


def k_cases(tier):
    counts = (1, 2, 61, 125)
    for framing in ('rtu', 'tcp', 'aa55'):
        for c in counts:
            for fill in (0x00, 0xFF, 0x5A, None):
                for trail in ((b'', b'\x00', b'\x00\x01', bytes(7)) if framing == 'rtu' else (b'',)):
                    for ka in (False, True):
                        yield framing, c, fill, trail, ka
    # payloads that contain the byte strings the transports and validators look for (frame magic, unit + function,
    # exception function, MBAP zeros) at every position of an otherwise quiet payload
    for framing in ('rtu', 'tcp', 'aa55'):
        for magic in (b'\xaa\x55', b'\xaa\x55\xf7\x03', b'\xaa\x55\x7f\xc0', b'\xf7\x03', b'\xf7\x83\x02', b'\x00\x00\x00\x06', b'\x01\x86'):
            for c in (4, 61):
                for pos in (range(0, 2 * c - len(magic) + 1) if c == 4 else (0, 57, 2 * c - len(magic))):
                    pl = bytearray(b'\x11' * (2 * c))
                    pl[pos:pos + len(magic)] = magic
                    yield framing, c, bytes(pl), b'', pos % 2 == 0


def run(tier, seed, rep):
    # histories of several requests on one object (mc/sessions.py): a first transmission answered by a conforming frame
    # needs no second one
    from .. import sessions
    _ses = sessions.explore_sessions(tier, seed, {'C02'}, light=True)
    rep.add_many([v for v in _ses.violations if v['prop'] == 'C02'])
    # conforming answers while other callers (asking for blocks of other lengths) queue on the same object
    from . import c06
    novl, ovl = c06.acceptance_stage(tier, seed, ('valid', 'valid@.6T'))
    for v in ovl:
        v['key'] = 'overlapping-callers:' + v['key']
    rep.add_many(ovl)
    npair = 0
    for cfg in pair_configs():
        npair += 1
        for clause, cause in run_pair(cfg):
            rep.add(f"{clause}/{cfg['transport']}/ka={int(cfg['ka'])}", clause, dict(part='P', cfg=cfg), dict(cause=cause, **cfg))
    from .c17 import settings_configs
    hjobs = [(c, tr, mode) for c in settings_configs() for tr in (('udp', 'tcp') if c['family'] != 'ES' else ('udp',))
             for mode in ('', 'ka', 'ka+loop-per-call', 'loop-per-call')]
    nh = 0
    for (c, tr, mode), (n, out) in zip(hjobs, pmap(healthy_api_job, hjobs)):
        nh += n
        for name, cause in out:
            rep.add(f"healthy-inverter-call-fails/{c['name']}/{tr}/{name}" + (f'/{mode}' if mode else ''),
                    'conforming answers of a healthy inverter are accepted',
                    dict(part='H', cfg=c, transport=tr, mode=mode), dict(cause=cause, usage=mode or 'one loop, keep-alive off'))
    jobs = []
    counts = list(range(1, 126))
    chunk = 8
    for framing in ('rtu', 'tcp'):
        cs = counts if tier == 'thorough' else [1, 2, 3, 60, 61, 124, 125]
        for i in range(0, len(cs), chunk):
            jobs.append(('read', framing, cs[i:i + chunk]))
        jobs.append(('write', framing, 'regs'))
        jobs.append(('write', framing, 'vals'))
    lens = list(range(256))
    for t in (AA55_TYPES if tier == 'thorough' else AA55_TYPES[:3]):
        for i in range(0, 256, 64):
            jobs.append(('aa55', t, lens[i:i + 64]))
    k = seed % len(jobs)
    jobs = jobs[k:] + jobs[:k]
    total = 0
    nontriv = 0
    for n, res, nt in pmap(job, jobs):
        total += n
        nontriv += nt
        rep.add_many(res)
    nk = 0
    for case in k_cases(tier):
        vio, res = run_k(*case)
        nk += 1
        for key, cause in vio:
            rep.add(key, key.split('/')[0], dict(part='K', case=[case[0], case[1], case[2], case[3].hex(), case[4]]),
                    dict(cause=cause))
        if nk % 7 == 0:
            # other configured timeouts (floats, below one second, long): a conforming answer that arrives at once is accepted
            for T_ in (0.5, 0.25, 2.5, 30):
                vio, res = run_k(*case, T=T_)
                nk += 1
                for key, cause in vio:
                    rep.add(key, key.split('/')[0],
                            dict(part='K', case=[case[0], case[1], case[2], case[3].hex(), case[4]], T=T_), dict(cause=cause, timeout=T_))
        if nk % 5 == 0:
            # the inverter's host is configured as a name / a non-canonical spelling (the kernel model resolves it; the
            # source address of the answers is the resolved one)
            for host in ('inverter.local', '10.0.2'):
                vio, res = run_k(*case, host=host)
                nk += 1
                for key, cause in vio:
                    rep.add(key + '/host-given-as-a-name', key.split('/')[0],
                            dict(part='K', case=[case[0], case[1], case[2], case[3].hex(), case[4]], host=host),
                            dict(cause=cause, host=host))
    for framing in ('rtu', 'tcp', 'aa55'):
        for kind in (('read', 'write', 'multi') if framing != 'aa55' else ('read',)):
            for ka in (False, True):
                nk += 1
                for key, cause in run_repeat(framing, kind, ka):
                    rep.add(key + f'/ka={int(ka)}', key.split('/')[0], dict(part='R', framing=framing, kind=kind, ka=ka), dict(cause=cause))
    for kind in ('read', 'write', 'multi'):
        for ka in (False, True):
            for ts in (0x7FFD, 0x7FFE, 0x7FFF, 0x8000, 0xFFFB, 0xFFFC, 0xFFFD, 0xFFFE):      # (states the counter can be in: it wraps from 0xFFFE to 1)
                nk += 1
                for key, cause in run_repeat('tcp', kind, ka, ts):
                    rep.add(key + f'/ka={int(ka)}', key.split('/')[0], dict(part='R', framing='tcp', kind=kind, ka=ka, tx_start=ts), dict(cause=cause))
    for framing in ('rtu', 'tcp'):
        for ca in (20, 61, 125):
            for cb in (1, 3, 10, 60, 100):
                for ka in (False, True):
                    v = run_after_lost_remainder(framing, ca, cb, ka)
                    if v is None:
                        continue
                    nk += 1
                    for key, cause in v:
                        rep.add(key, key.split('/')[0], dict(part='L', framing=framing, ca=ca, cb=cb, ka=ka), dict(cause=cause))
    cov = dict(two_object_cases=npair, api_calls_against_healthy_models=nh, session_histories=_ses.executions, overlapping_caller_executions=novl, evaluations=total + nk + novl, distinct_nontrivial=nontriv,
               rule='conforming frames built by the independent codec: RTU/MBAP read answers for every count x every '
                    'uniform fill byte (x all unit addresses for counts 1 and 125, x trailing 0/1/2/7 bytes on RTU), '
                    'walking-one payloads, write echoes over all 65536 registers x boundary values and all 65536 '
                    'values x boundary registers, multi-write echoes, AA55 answers for each response type x payload '
                    'length 0..255 x fill 0..255; non-trivial = distinct (framing, count, unit, fill, trailing) cells',
               transport_executions=nk, exhaustive=True,
               samples=[dict(framing='rtu', count=125, fill=255, trailing=7,
                             validator=accept(gp.ModbusRtuReadCommand(0xF7, 0x891C, 125),
                                              wire.rtu_read_resp(0xF7, b'\xff' * 250, bytes(7))),
                             through_transport=str(run_k('rtu', 125, 0xFF, bytes(7), True)[1][0])),
                        dict(framing='aa55', type='0186', length=140, fill=255,
                             checksum=hex(wire.sum16(wire.aa55_resp('0186', b'\xff' * 140)[:-2])),
                             validator=accept(gp.Aa55ProtocolCommand('010600', '0186'), wire.aa55_resp('0186', b'\xff' * 140)))])
    return dict(level='exploration', coverage=cov,
                assumptions=['"exactly that payload" = the 2 x count register bytes (read) / the AA55 payload bytes',
                             'frames are built by mc/wire.py from the protocol descriptions'])


def replay(r):
    if r['part'] == 'session':
        from .. import sessions
        out = sessions.replay(r)
        out['violations'] = [m for m in out['violations'] if m[0] == 'C02']
        return out
    if r['part'] == 'overlap':
        from . import c06
        out = c06.replay(r)
        out['violations'] = [v for v in out['violations'] if v[0].startswith('answered-at-once:valid')]
        return out
    if r['part'] == 'P':
        return dict(violations=run_pair(r['cfg']))
    if r['part'] == 'H':
        cfg = r['cfg']
        cfg['refused'] = tuple(cfg['refused'])
        if isinstance(cfg.get('firmware'), dict):
            cfg['firmware'] = bytes.fromhex(cfg['firmware']['hex'])
        n, out = healthy_api_job((cfg, r['transport'], r.get('mode', '')))
        return dict(calls=n, violations=out)
    if r['part'] == 'L':
        return dict(violations=run_after_lost_remainder(r['framing'], r['ca'], r['cb'], r['ka']) or [])
    if r['part'] == 'R':
        return dict(violations=run_repeat(r['framing'], r['kind'], r['ka'], r.get('tx_start')))
    if r['part'] == 'E':
        spec = r['spec']
        framing = r['framing']
        if framing == 'aa55':
            cmd = gp.Aa55ProtocolCommand(spec[1], spec[2])
        else:
            R, W, M = ((gp.ModbusRtuReadCommand, gp.ModbusRtuWriteCommand, gp.ModbusRtuWriteMultiCommand) if framing == 'rtu'
                       else (gp.ModbusTcpReadCommand, gp.ModbusTcpWriteCommand, gp.ModbusTcpWriteMultiCommand))
            cmd = R(spec[1], spec[2], spec[3]) if spec[0] == 'read' else W(spec[1], spec[2], spec[3]) if spec[0] == 'write' \
                else M(spec[1], spec[2], bytes(2 * spec[3]))
        o = accept(cmd, bytes.fromhex(r['data']))
        return dict(outcome=o, violations=[] if o == 'accept' else [('conforming frame refused', o)])
    c = r['case']
    fill = bytes.fromhex(c[2]['hex']) if isinstance(c[2], dict) else c[2]      # (an explicit payload)
    vio, res = run_k(c[0], c[1], fill, bytes.fromhex(c[3]), c[4], host=r.get('host'), T=r.get('T', 1))
    return dict(result=[x.hex() if isinstance(x, bytes) else x for x in res], violations=vio)
