"""C13 - derived and label sensors always agree with the raw sensors of the same read (DESIGN 3, C13)."""
from __future__ import annotations

import itertools
import struct

from .. import world, refdec
from ..blocks import all_tables, Table, tname, context, poke
from ..explore import pmap

Inverter = world.goodwe.Inverter
LABEL_TYPES = ('Enum', 'EnumH', 'EnumL', 'Enum2', 'EnumBitmap4', 'EnumBitmap22', 'EnumCalculated')
CODE_TYPES = ('Byte', 'ByteH', 'ByteL', 'Integer', 'Long', 'Calculated')

# pairs the tables are known to contain at the pinned commit (a pair silently disappearing is noticed)
EXPECTED_MIN_PAIRS = {'ET': 15, 'DT': 3, 'ES': 8}


def find_pairs(t: Table):
    """(code sensor(s), label sensor) pairs of one table, discovered structurally."""
    out = []
    byid = {s.id_: s for s in t.sensors}
    for lab in t.sensors:
        k = tname(lab)
        if k not in LABEL_TYPES:
            continue
        if k == 'EnumBitmap22':
            hi = [s for s in t.sensors if tname(s) == 'Integer' and s.offset == lab.offset]
            lo = [s for s in t.sensors if tname(s) == 'Integer' and s.offset == lab._offsetL]
            if hi and lo:
                out.append(('bitmap22', (hi[0], lo[0]), lab))
            continue
        if k == 'EnumCalculated':
            code = byid.get(lab.id_.replace('_label', ''))
            if code is not None:
                out.append(('calc-label', (code,), lab))
            continue
        want = {'Enum': ('Byte',), 'EnumH': ('ByteH',), 'EnumL': ('ByteL',), 'Enum2': ('Integer',), 'EnumBitmap4': ('Long',)}[k]
        codes = [s for s in t.sensors if tname(s) in want and s.offset == lab.offset]
        if codes:
            out.append(('bitmap4' if k == 'EnumBitmap4' else 'label', (codes[0],), lab))
    return out


def map2(resp, sensors):
    try:
        return Inverter._map_response(resp, tuple(sensors)), None
    except BaseException as e:  # noqa: BLE001
        return None, type(e).__name__


def job_pairs(j):
    ti, seed, full = j
    world.reset()
    t = all_tables()[ti]
    pairs = find_pairs(t)
    n = 0
    vio = {}
    if t.mode == 'modbus' and t.nbytes > 250:
        return 0, [], len(pairs), t.family
    ctx = context(t.nbytes, seed, 5)
    resp = t.response(bytes(ctx))

    def bad(kind, lab, regs, got, want):
        key = f'{kind}/{t.family}/{tname(lab)}'
        vio.setdefault(key, []).append(dict(key=key, clause=kind,
                                            replay=dict(kind='pair', table=[t.family, t.name], label=lab.id_, regs=regs),
                                            detail=dict(label_sensor=lab.id_, registers=regs, reported=got, expected=want)))
    for kind, codes, lab in pairs:
        if kind == 'label':
            code = codes[0]
            pos = t.byte_pos(code)
            nb = 2 if tname(code) in ('Integer', 'ByteL') else 1
            rng = range(65536) if nb == 2 else range(256)
            others = (0,) if nb == 2 or t.mode != 'modbus' else (0x00, 0x7F, 0xFF)
            for other in others:
                if nb == 1 and t.mode == 'modbus':
                    poke(resp, pos + 1, bytes([other]))
                for v in rng:
                    poke(resp, pos, struct.pack('>H', v) if nb == 2 else bytes([v]))
                    d, err = map2(resp, (code, lab))
                    n += 1
                    if err:
                        continue  # totality is C11's business
                    want = lab._labels.get(d[code.id_])
                    if d[lab.id_] != want:
                        bad('label-is-lookup-of-code', lab, f'{v:#x}', d[lab.id_], want)
        elif kind == 'bitmap4':
            code = codes[0]
            pos = t.byte_pos(code)
            for other in (0, 0xFFFF, 0x8001):
                for v in (range(65536) if full else itertools.chain(range(0, 65536, 17), (1 << i for i in range(16)), (0xFFFF, 0x7FFF))):
                    for hi_first in (True, False):
                        w = struct.pack('>HH', v, other) if hi_first else struct.pack('>HH', other, v)
                        poke(resp, pos, w)
                        d, err = map2(resp, (code, lab))
                        n += 1
                        if err:
                            continue
                        bits = refdec.u(w)
                        if bits == 0xFFFFFFFF:
                            bits = 0  # 'no value' word
                        want = refdec.bitmap_text(bits, lab._labels)
                        if d[lab.id_] != want:
                            bad('bitmap-lists-set-bits', lab, w.hex(), d[lab.id_], want)
        elif kind == 'bitmap22':
            hi, lo = codes
            ph, pl = t.byte_pos(hi), t.byte_pos(lo)
            for other in (0, 1, 0x8000, 0xFFFF):
                for v in (range(65536) if full else itertools.chain(range(0, 65536, 17), (1 << i for i in range(16)), (0xFFFF, 0x7FFF))):
                    for vary_hi in (True, False):
                        H, L = (v, other) if vary_hi else (other, v)
                        poke(resp, ph, struct.pack('>H', H))
                        poke(resp, pl, struct.pack('>H', L))
                        d, err = map2(resp, (hi, lo, lab))
                        n += 1
                        if err:
                            continue
                        h_, l_ = d[hi.id_], d[lo.id_]     # as reported (0xFFFF means 'no value' -> 0)
                        want = refdec.bitmap_text(h_ * 65536 + l_, lab._labels)
                        if d[lab.id_] != want:
                            # the recorded finding is exactly this mis-parse; anything else gets another key
                            defect = refdec.bitmap_text((h_ << (16 + l_)) & 0xFFFFFFFF if l_ < 32 else 0, lab._labels)
                            cls = 'reports-high<<(16+low)' if (l_ and d[lab.id_] == defect) else \
                                ('low-word-nonzero' if l_ else 'low-word-zero')
                            key = f'bitmap22-is-high*65536+low/{t.family}/{cls}'
                            vio.setdefault(key, []).append(dict(
                                key=key, clause='bitmap22-is-high*65536+low',
                                replay=dict(kind='pair', table=[t.family, t.name], label=lab.id_, regs=[H, L]),
                                detail=dict(label_sensor=lab.id_, high=H, low=L, reported=d[lab.id_], expected=want)))
        elif kind == 'calc-label':
            pass  # handled with the formulas below
    res = []
    for key, lst in vio.items():
        v = lst[0]
        v['n'] = len(lst)
        res.append(v)
    return n, res, len(pairs), t.family


# ------------------------------------------------------------------ sums, products, formulas

G16 = (0, 1, 0x7FFF, 0x8000, 0xFFFF, 899, 900, 901)
S16 = (0, 1, 89, 90, 91, 0x7FFF, 0x8000, 0xFFFF, 0xFFA5, 0xFFA6, 0xFFA7)   # -91, -90, -89
G32 = (0, 1, 0x7FFFFFFF, 0x80000000, 0xFFFFFFFF, 0xFFFFFFFE, 5000)


def nz(x):
    return 0 if x is None else x


def approx_round(got, x):
    return isinstance(got, int) and abs(got - x) <= 0.5 + 1e-9


def formulas(family):
    """id -> (registers involved: [(sensor id or ('raw', address/offset, nbytes), domain)], predicate(d, raw) -> bool)"""
    if family == 'ET':
        return 'all_sensors', [
            ('ppv', ['ppv1', 'ppv2', 'ppv3', 'ppv4'], G32,
             lambda d, r: d['ppv'] == nz(d['ppv1']) + nz(d['ppv2']) + nz(d['ppv3']) + nz(d['ppv4'])),
            ('house_consumption', ['ppv1', 'ppv2', 'pbattery1', 'active_power'], (0, 1, 0x7FFFFFFF, 0xFFFFFFFF, 0xFFFFFF38),
             lambda d, r: d['house_consumption'] == nz(d['ppv1']) + nz(d['ppv2']) + nz(d['ppv3']) + nz(d['ppv4']) +
             d['pbattery1'] - d['active_power']),
            ('grid_in_out', ['active_power'], None,
             lambda d, r: d['grid_in_out'] == (2 if d['active_power'] < -90 else 1 if d['active_power'] >= 90 else 0)),
            ('grid_in_out_label', ['active_power'], None,
             lambda d, r: d['grid_in_out_label'] == {0: 'Idle', 1: 'Exporting', 2: 'Importing'}[d['grid_in_out']]),
        ]
    if family == 'DT':
        f = []
        for i in (1, 2, 3):
            f.append((f'ppv{i}', [f'vpv{i}', f'ipv{i}'], G16,
                      lambda d, r, i=i: approx_round(d[f'ppv{i}'], d[f'vpv{i}'] * d[f'ipv{i}'])))
            f.append((f'pgrid{i}', [f'vgrid{i}', f'igrid{i}'], G16,
                      lambda d, r, i=i: approx_round(d[f'pgrid{i}'], d[f'vgrid{i}'] * d[f'igrid{i}'])))
        f.append(('ppv', ['vpv1', 'ipv1', 'vpv2', 'ipv2', 'vpv3', 'ipv3'], (0, 1, 0x7FFF, 0xFFFF, 900),
                  lambda d, r: d['ppv'] == d['ppv1'] + d['ppv2'] + d['ppv3']))
        f.append(('ppv', ['vpv1', 'ipv1', 'vpv2', 'ipv2', 'vpv3', 'ipv3'], (2050, 49, 2025, 46, 0),
                  lambda d, r: d['ppv'] == d['ppv1'] + d['ppv2'] + d['ppv3']))
        return 'all_sensors', f
    if family == 'ES':
        return 'sensors', [
            ('ppv1', ['vpv1', 'ipv1'], G16, lambda d, r: approx_round(d['ppv1'], d['vpv1'] * d['ipv1'])),
            ('ppv2', ['vpv2', 'ipv2'], G16, lambda d, r: approx_round(d['ppv2'], d['vpv2'] * d['ipv2'])),
            ('ppv', ['vpv1', 'ipv1', 'vpv2', 'ipv2'], G16, lambda d, r: d['ppv'] == d['ppv1'] + d['ppv2']),
            ('plant_power', ['pload', 'pback_up'], G16, lambda d, r: d['plant_power'] == nz(d['pload']) + nz(d['pback_up'])),
            ('pgrid', [('raw', 38, 2), 'grid_in_out'], S16,
             lambda d, r: d['pgrid'] == abs(refdec.s(r[0])) * (-1 if d['grid_in_out'] == 2 else 1)),
            ('ibattery1', [('raw', 18, 2), 'battery_mode'], G16,
             lambda d, r: refdec.same(d['ibattery1'], abs(refdec.decode(_V, r[0])) * (-1 if d['battery_mode'] == 3 else 1))),
            ('pbattery1', ['vbattery1', ('raw', 18, 2), 'battery_mode'], G16,
             lambda d, r: approx_round(abs(d['pbattery1']), abs(d['vbattery1'] * refdec.decode(_V, r[0]))) and
             (d['pbattery1'] <= 0 if d['battery_mode'] == 3 else d['pbattery1'] >= 0)),
            ('house_consumption', ['vpv1', 'ipv1', 'vbattery1', ('raw', 18, 2), 'battery_mode', ('raw', 38, 2), 'grid_in_out'],
             (0, 1, 0x0203, 0xFFFF, 900),
             lambda d, r: d['house_consumption'] == d['ppv1'] + d['ppv2'] + d['pbattery1'] - d['pgrid']),
            # ... and over voltage/current pairs whose exact product ends in .5 W (205.0 V x 4.9 A, 202.5 V x 4.6 A): which way
            # a tie is rounded is not prescribed, but the total is over the parts AS REPORTED in the same result
            ('house_consumption', ['vpv1', 'ipv1', 'vbattery1', ('raw', 18, 2), 'battery_mode', ('raw', 38, 2), 'grid_in_out'],
             (2050, 49, 2025, 46, 0),
             lambda d, r: d['house_consumption'] == d['ppv1'] + d['ppv2'] + d['pbattery1'] - d['pgrid']),
            ('ppv', ['vpv1', 'ipv1', 'vpv2', 'ipv2'], (2050, 49, 2025, 46, 0, 1005, 10), lambda d, r: d['ppv'] == d['ppv1'] + d['ppv2']),
        ]
    return None, []


class _Volt:
    pass


_V = type('Voltage', (), {})()


def sample_pair(fam, table, label_id, code):
    t = [x for x in all_tables() if x.family == fam and x.name == table][0]
    kind, codes, lab = [p for p in find_pairs(t) if p[2].id_ == label_id][0]
    resp = t.response(bytes(t.nbytes))
    n = refdec.size_of(codes[0])
    poke(resp, t.byte_pos(codes[0]), code.to_bytes(max(n, 2), 'big')[-max(n, 2):] if n != 1 else bytes([code]))
    d, err = map2(resp, codes + (lab,))
    return dict(table=f'{fam}.{table}', code_register=hex(code), result={k: str(v) for k, v in (d or {}).items()}, error=err)


UNIFORMS = (0, 1, 2, 3, 4, 5, 6, 7, 8, 0xFFFF)


def job_formulas(j):
    family, seed = j[:2]
    only = j[2] if len(j) > 2 else 'all'
    world.reset()
    tname_, fl = formulas(family)
    t = [x for x in all_tables() if x.family == family and x.name == tname_][0]
    byid = {s.id_: s for s in t.sensors}
    n = 0
    vio = {}
    # every formula is evaluated in the seed-selected block and in blocks whose OTHER registers all hold one small code
    # (work modes, battery modes, ... : a derived value must not depend on registers outside its definition)
    variants = [(None, fl_) for fl_ in fl] + [(k, fl_) for k in UNIFORMS for fl_ in fl]
    if only != 'all':
        variants = [v for v in variants if v[0] == only]
    for uniform, (target, regs, dom, pred) in variants:
        ctx = context(t.nbytes, seed, 7) if uniform is None else bytearray(uniform.to_bytes(2, 'big') * (t.nbytes // 2 + 1))[:t.nbytes]
        resp = t.response(bytes(ctx))
        slots = []
        for r in regs:
            if isinstance(r, tuple):
                slots.append((r[1], r[2], None))
            else:
                s = byid[r]
                slots.append((t.byte_pos(s), refdec.size_of(s), s))
        doms = []
        for pos, nb, s in slots:
            if dom is None:
                doms.append(range(65536) if uniform is None else S16)
            elif nb == 4:
                doms.append(G32 if dom is G16 or dom is S16 else dom)
            elif nb == 1:
                doms.append((0, 1, 2, 3, 0x7F, 0x80, 0xFF))
            else:
                doms.append([x & 0xFFFF for x in dom])
        involved = [byid[x] for x in byid if x in regs or x == target or x in
                    ('ppv1', 'ppv2', 'ppv3', 'ppv4', 'pbattery1', 'pgrid', 'grid_in_out', 'active_power', 'vpv1', 'ipv1',
                     'vpv2', 'ipv2', 'vpv3', 'ipv3', 'battery_mode', 'vbattery1', 'pload', 'pback_up')]
        for combo in itertools.product(*doms):
            raws = []
            for (pos, nb, s), v in zip(slots, combo):
                b = v.to_bytes(nb, 'big')
                poke(resp, pos, b)
                raws.append(b)
            d, err = map2(resp, involved)
            n += 1
            if err:
                continue
            try:
                ok = pred(d, [raws[i] for i, (_, _, s) in enumerate(slots) if s is None])
            except TypeError:
                ok = True   # a part is None where the formula needs a number: nothing to compare
            if not ok:
                key = f'formula/{family}/{target}' + ('' if uniform is None else '/other-registers-uniform')
                vio.setdefault(key, []).append(dict(
                    key=key, clause='derived value equals its definition over the same response',
                    replay=dict(kind='formula', family=family, target=target, values=list(combo), uniform=uniform),
                    detail=dict(target=target, registers=[str(r) for r in regs], values=[hex(c) for c in combo],
                                reported={k: str(v)[:30] for k, v in d.items() if k in regs or k == target})))
    res = []
    for key, lst in vio.items():
        v = lst[0]
        v['n'] = len(lst)
        res.append(v)
    return n, res


# ------------------------------------------------------------------ relations inside read_runtime_data() results

def relations(fam, inv, d, hidden=None):
    """Relations between values of ONE result of read_runtime_data() of a real, configured inverter object.
    `hidden`: documented reading of the same response's registers for parts the model does not report (a two-tracker
    model hides ppv3/ppv4, the total is still defined over the registers of the response)."""
    out = []
    reported = d
    d = dict(hidden or {}, **d)
    sens = {s.id_: s for s in world.listed(inv)}
    for sid, s in sens.items():
        if sid.endswith('_label') and hasattr(s, '_labels') and tname(s) in ('Enum', 'EnumH', 'EnumL', 'Enum2', 'EnumCalculated'):
            code = sid[:-len('_label')]
            if code in d and sid in d and isinstance(d[code], int):
                if d[sid] != s._labels.get(d[code]):
                    out.append((f'{sid}-is-lookup-of-{code}', f'{code}={d[code]} {sid}={d[sid]!r}'))

    # label sensors paired with their code sensor structurally (same registers, matching types) - whatever the ids are
    listed = list(world.listed(inv))
    for lab in listed:
        k = tname(lab)
        want_t = {'Enum': ('Byte',), 'EnumH': ('ByteH',), 'EnumL': ('ByteL',), 'Enum2': ('Integer',), 'EnumBitmap4': ('Long',)}.get(k)
        if not want_t or lab.id_ not in reported:
            continue
        codes = [s for s in listed if tname(s) in want_t and s.offset == lab.offset]
        if not codes or codes[0].id_ not in reported or not isinstance(reported[codes[0].id_], int):
            continue
        cv = reported[codes[0].id_]
        if k == 'EnumBitmap4':
            bits = cv & 0xFFFFFFFF
            want = refdec.bitmap_text(0 if bits == 0xFFFFFFFF else bits, lab._labels)
        else:
            want = lab._labels.get(cv)
        if reported[lab.id_] != want:
            out.append((f'{lab.id_}-is-lookup-of-{codes[0].id_}', f'{codes[0].id_}={cv} {lab.id_}={reported[lab.id_]!r} (expected {want!r})'))

    def has(*ks):
        return all(k in d and d[k] is not None for k in ks)
    if fam == 'ET':
        if has('active_power', 'grid_in_out'):
            want = 2 if d['active_power'] < -90 else 1 if d['active_power'] >= 90 else 0
            if d['grid_in_out'] != want:
                out.append(('grid_in_out-follows-active_power', f"active_power={d['active_power']} grid_in_out={d['grid_in_out']}"))
        parts = [k for k in ('ppv1', 'ppv2', 'ppv3', 'ppv4') if k in d]
        if len(parts) < 4:
            parts = []
        # a model that hides ppv3/ppv4: the total over the reported parts and the total over all four registers of the
        # response are both accepted readings of "sum of its parts"
        sums = {sum(nz(d[k]) for k in parts), sum(nz(reported[k]) for k in parts if k in reported)}
        if 'ppv' in d and parts and d['ppv'] not in sums:
            out.append(('ppv-is-sum-of-parts', f"ppv={d['ppv']} parts={[d[k] for k in parts]} (reported: {[k for k in parts if k in reported]})"))
        if has('house_consumption', 'pbattery1', 'active_power') and parts:
            wants = {x + d['pbattery1'] - d['active_power'] for x in sums}
            want = sorted(wants)[0]
            if d['house_consumption'] not in wants:
                out.append(('house_consumption-formula', f"house_consumption={d['house_consumption']} expected {want} "
                            f"(active_power={d['active_power']}, pbattery1={d['pbattery1']})"))
    elif fam == 'DT':
        for i in (1, 2, 3):
            for a, v, c in ((f'ppv{i}', f'vpv{i}', f'ipv{i}'), (f'pgrid{i}', f'vgrid{i}', f'igrid{i}')):
                if has(a, v, c) and not approx_round(d[a], d[v] * d[c]):
                    out.append((f'{a}-is-v*i', f'{a}={d[a]} {v}={d[v]} {c}={d[c]}'))
        parts = [k for k in ('ppv1', 'ppv2', 'ppv3') if has(k)]
        if has('ppv') and len(parts) == 3 and tname(sens['ppv']) == 'Calculated' and d['ppv'] != sum(d[k] for k in parts):
            out.append(('ppv-is-sum-of-parts', f"ppv={d['ppv']} parts={[d[k] for k in parts]}"))
    else:
        for a, v, c in (('ppv1', 'vpv1', 'ipv1'), ('ppv2', 'vpv2', 'ipv2')):
            if has(a, v, c) and not approx_round(d[a], d[v] * d[c]):
                out.append((f'{a}-is-v*i', f'{a}={d[a]} {v}={d[v]} {c}={d[c]}'))
        if has('ppv', 'ppv1', 'ppv2') and d['ppv'] != d['ppv1'] + d['ppv2']:
            out.append(('ppv-is-sum-of-parts', f"ppv={d['ppv']}"))
        if 'plant_power' in d and d['plant_power'] != nz(d.get('pload')) + nz(d.get('pback_up')):
            out.append(('plant_power-formula', f"plant_power={d['plant_power']}"))
        if has('house_consumption', 'ppv1', 'ppv2', 'pbattery1', 'pgrid') and \
                d['house_consumption'] != d['ppv1'] + d['ppv2'] + d['pbattery1'] - d['pgrid']:
            out.append(('house_consumption-formula', f"house_consumption={d['house_consumption']}"))
        if has('pgrid', 'grid_in_out') and (d['pgrid'] > 0) and d['grid_in_out'] == 2:
            out.append(('pgrid-sign-follows-grid_in_out', f"pgrid={d['pgrid']} grid_in_out={d['grid_in_out']}"))
    return out


W16 = (0, 1, 89, 90, 0x7FFF, 0x8000, 0xFFA5, 0xFFA6, 0xFFFF)
NEIGHBOURS = {'small-2-string': dict(family='ET', tag='ETU', power=3000, refused=(), battery_mode=0),
              'large-4-string': dict(family='ET', tag='HSB', power=50000, refused=(), battery_mode=2),
              'single-phase-dt': dict(family='DT', tag='DSN', power=3000, refused=(), battery_mode=0)}


def job_api(cfg):
    """A configured inverter object (read_device_info done) polled once per assignment of the registers the derived
    sensors depend on - the words around the power registers included (a model-dependent sensor layout must keep raw and
    derived values consistent)."""
    from ..configs import make_rig
    world.reset()
    fam = cfg['family']
    seedv = cfg.get('seed', 0)
    fill = lambda a: (a * 7919 + seedv * 31 + 3) & 0x7FFF      # noqa: E731
    w16 = W16
    if cfg.get('other_small') is not None:
        # the registers the stage does not assign itself hold small values: every pair of adjacent registers takes every
        # combination of {0,1,2,3} over the 16 configurations (status / mode words of the OTHER blocks of the poll)
        x, y = cfg['other_small'] // 4, cfg['other_small'] % 4
        fill = lambda a: x if a % 2 == 0 else y      # noqa: E731
        w16 = (0, 1200, 0xFB50, 0x7FFF, 0x8000, 90)
    r = make_rig(cfg, cfg.get('transport', 'udp'), fill=fill, ka=cfg.get('ka', False))
    inv = r.inv
    if r.call(inv.read_device_info)[0] != 'ok':
        return 0, [dict(key=f'api/{fam}/device-info', clause='device info readable', n=1, replay=dict(kind='api', cfg=cfg), detail={})]
    if cfg.get('neighbour'):
        # another inverter object of another model is configured in the same process before this one is polled
        from .. import devsim
        nb = dict(NEIGHBOURS[cfg['neighbour']])
        r2 = make_rig(nb, 'udp', fill=lambda a: 0, keep_world=True)
        r2.call(r2.inv.read_device_info)
        r2.call(r2.inv.read_runtime_data)
    vio = {}
    n = 0
    r.call(inv.read_runtime_data)       # (a model whose inverter refuses blocks settles on its fallbacks here)
    toggle = [0]

    def poll(assign):
        nonlocal n
        if fam == 'ET':
            # the battery comes and goes from poll to poll (capability flags must not lag behind the values they explain)
            toggle[0] += 1
            r.dev.rf.set(35184, (2, 2, 0, 0, 2, 0)[toggle[0] % 6])
        st = r.call(inv.read_runtime_data)
        n += 1
        if st[0] != 'ok':
            return
        hidden = {}
        if fam == 'ET':
            for s in world.tables(world.FAMILIES['ET'])['all_sensors']:
                if s.id_ in ('ppv1', 'ppv2', 'ppv3', 'ppv4') and s.id_ not in st[1]:
                    v = refdec.decode(s, r.dev.rf.getbytes(s.offset, 2))
                    hidden[s.id_] = None if v is refdec.NOVALUE else v
        for name, cause in relations(fam, inv, st[1], hidden):
            key = f'api:{name}/{fam}' + (f"/after-configuring:{cfg['neighbour']}" if cfg.get('neighbour') else '') + \
                (f"/{cfg['transport']}" + ('+keep-alive' if cfg.get('ka') else '') if cfg.get('transport') else '') + \
                ('/small-values-in-the-other-registers' if cfg.get('other_small') is not None else '')
            vio.setdefault(key, []).append(dict(key=key, clause=name, replay=dict(kind='api', cfg=cfg, assign=assign),
                                                detail=dict(cause=cause, registers=assign, model=cfg['tag'], rated=cfg['power'])))
    if fam == 'ES':
        dev = r.dev
        for a in w16:
            for b in (0, 1, 2, 3, 0x80, 0xFF):
                dev.runtime[38:40] = a.to_bytes(2, 'big')
                dev.runtime[18:20] = ((a * 3) & 0xFFFF).to_bytes(2, 'big')
                for pos in (30, 37, 40, 41, 80):     # mode bytes around the power words
                    if pos < len(dev.runtime):
                        dev.runtime[pos] = b
                poll([a, b])
    else:
        rf = r.dev.rf
        base = 35139 if fam == 'ET' else 30127
        for hi in w16:
            for lo in w16:
                for k, other in enumerate((0, 0xFFFF)):
                    rf.set(base, hi)
                    rf.set(base + 1, lo)
                    rf.set(base - 1, other)
                    rf.set(base + 2, other ^ 0x0F0F)
                    if fam == 'ET':
                        rf.set(35105, other)          # ppv1 high word
                        rf.set(35182, hi)             # pbattery1 high word
                        rf.set(35183, lo ^ other)
                    poll([hi, lo, other])
    res = []
    for key, lst in vio.items():
        lst[0]['n'] = len(lst)
        res.append(lst[0])
    return n, res


OVERLAP_CFGS = [dict(family='ET', tag='HSB', power=50000, refused=(), battery_mode=2),
                dict(family='ET', tag='ETU', power=10000, refused=(), battery_mode=2),
                dict(family='ET', tag='25KET', power=25000, refused=('meter_ext2',), battery_mode=2),
                dict(family='DT', tag='DTU', power=10000, refused=(), battery_mode=0),
                dict(family='DT', tag='DSN', power=3000, refused=('meter',), battery_mode=0),
                dict(family='ES', tag='ESU', power=5000, refused=(), battery_mode=0)]


def job_overlap(cfg):
    """Two polls of one object overlap (the second is started when the inverter has seen k requests of the first, every k)
    while the inverter's measurements change with every request it answers: each result still relates raw and derived
    values of ONE response."""
    import asyncio
    from ..configs import make_rig
    fam = cfg['family']
    vio = {}
    n = 0

    def changing(dev):
        orig = dev.on_send

        def on_send(sock, data):
            i = len(dev.log) + 1
            if fam == 'ES':
                for a in range(0, len(dev.runtime)):
                    if a not in (30, 37, 40, 41, 80):
                        dev.runtime[a] = (a * 7 + i * 13) & 0x3F
            else:
                lo, hi = (35103, 35225) if fam == 'ET' else (30103, 30173)
                for a in range(lo, hi):
                    if a != 35184:
                        dev.rf.set(a, (0xFFFF if (a + i) % 5 == 0 else 0) if a in (35137, 35139, 35182, 35104, 35108, 35112, 35116)
                                   else (a * 7919 + i * 977) & 0x7FF)
            return orig(sock, data)
        dev.on_send = on_send
    base = make_rig(cfg, 'udp', fill=lambda a: 0)
    base.call(base.inv.read_device_info)
    base.call(base.inv.read_runtime_data)
    l0 = len(base.dev.log)
    base.call(base.inv.read_runtime_data)
    nreq = len(base.dev.log) - l0
    for k in range(nreq + 1):
        world.reset()
        r = make_rig(cfg, 'udp', fill=lambda a: 0)
        inv, dev = r.inv, r.dev
        r.call(inv.read_device_info)
        r.call(inv.read_runtime_data)
        changing(dev)
        l1 = len(dev.log)

        async def both():
            async def second():
                guard = 0
                while len(dev.log) - l1 < k and guard < 400:
                    guard += 1
                    await asyncio.sleep(0.0004)
                return await inv.read_runtime_data()
            return await asyncio.gather(inv.read_runtime_data(), second(), return_exceptions=True)
        st = r.call(both)
        n += 1
        if st[0] != 'ok':
            continue
        for which, d in enumerate(st[1]):
            if not isinstance(d, dict):
                continue
            for name, cause in relations(fam, inv, d, None):
                key = f'api:{name}/{fam}/overlapping-polls-of-changing-measurements'
                vio.setdefault(key, []).append(dict(key=key, clause=name, replay=dict(kind='overlap', cfg=cfg, k=k),
                                                    detail=dict(cause=cause, second_poll_started_after_request=k, result_of_poll=which,
                                                                model=cfg['tag'], rated=cfg['power'])))
    res = []
    for key, lst in vio.items():
        lst[0]['n'] = len(lst)
        res.append(lst[0])
    return n, res


def api_configs(tier, seed):
    from ..configs import et_configs, dt_configs, es_configs, ET_TAGS
    seen = set()
    out = []
    # every serial-number tag the library knows (a model-specific quirk may hang on any of them), two power classes
    every_tag = [dict(family='ET', tag=t, power=p, refused=(), battery_mode=2) for t in ET_TAGS for p in (3000, 50000)]
    # ... and inverters that refuse optional blocks (the fallback paths of the poll are taken from the second poll on)
    refusing = [dict(family='ET', tag=t, power=p, refused=rf, battery_mode=2, with_refusals=True)
                for t, p in (('ETU', 15000), ('ETT', 10000), ('25KET', 25000))
                for rf in (('meter_ext2',), ('meter_ext', 'meter_ext2'), ('mppt',), ('battery2',), ('battery',))]
    for c in list(et_configs(tier, seed)) + every_tag + list(dt_configs(tier, seed)) + list(es_configs(tier, seed)):
        k = (c['family'], c['tag'], c['power'], c.get('firmware'))
        if c['refused'] or c['battery_mode'] != (2 if c['family'] == 'ET' else 0) or k in seen:
            continue
        seen.add(k)
        out.append(dict(c, seed=seed))
    # ... and the other ways an object can be configured: Modbus/TCP (port 502), keep-alive on
    other = [dict(family='ET', tag=t, power=p, refused=(), battery_mode=2, transport=tr, ka=ka)
             for t, p in (('ETU', 10000), ('ETT', 25000)) for tr, ka in (('tcp', False), ('tcp', True), ('udp', True))] + \
            [dict(family='DT', tag='DTU', power=5000, refused=(), battery_mode=0, transport='tcp', ka=False)]
    small = [dict(family='ET', tag=t, power=p, refused=(), battery_mode=2, other_small=k)
             for t, p in (('ETU', 10000), ('ETT', 25000)) for k in range(16)] + \
            [dict(family='DT', tag='DTU', power=5000, refused=(), battery_mode=0, other_small=k) for k in range(16)]
    return out + [dict(c, seed=seed) for c in refusing + other + small]


def api_configs_with_neighbours(tier, seed):
    base = api_configs(tier, seed)
    out = list(base)
    for i, c in enumerate(base):
        if c['family'] == 'ES' or (c.get('other_small') is not None and c['other_small'] % 5):
            continue
        for j, nb in enumerate(NEIGHBOURS):
            if tier == 'thorough' or (i + j + seed) % 3 == 0:
                out.append(dict(c, neighbour=nb))
    return out


def pinned_labels_part(rep):
    """Which documented label table every label sensor looks its code up in (and the tables' contents), pinned."""
    import json
    import os
    import goodwe.const as C
    pin = json.load(open(os.path.join(os.path.dirname(os.path.dirname(__file__)), 'data', 'labels.json')))
    names = {id(v): k for k, v in vars(C).items() if isinstance(v, dict)}
    n = 0
    for fam, cls in world.FAMILIES.items():
        for name, sensors in world.tables(cls).items():
            for s_ in sensors:
                k = f'{fam}.{name}.{s_.id_}'
                if hasattr(s_, '_labels') and k in pin['label_tables']:
                    n += 1
                    cur = names.get(id(s_._labels), '?')
                    if cur != pin['label_tables'][k] and \
                            {str(a): b for a, b in s_._labels.items()} != pin['consts'].get(pin['label_tables'][k]):
                        rep.add(f'label-table/{fam}/{s_.id_}', 'label sensor uses the label table of its code',
                                dict(kind='labels', sensor=k), dict(pinned=pin['label_tables'][k], current=cur))
    for cname, content in pin['consts'].items():
        cur = getattr(C, cname, None)
        n += 1
        if isinstance(cur, dict):
            for a, b in content.items():
                if str(cur.get(int(a), b)) != b:
                    rep.add(f'label-table-content/{cname}/{a}', 'documented label of a code changed',
                            dict(kind='labels', sensor=cname), dict(code=a, pinned=b, current=cur.get(int(a))))
    return n


def run(tier, seed, rep):
    # histories of public API calls and device changes on one object; the poll that follows each history is judged
    from .. import api_sessions
    _api = api_sessions.explore(tier, seed, {'C13'})
    rep.add_many([v for v in _api['violations'] if v['prop'] == 'C13'])
    nl = pinned_labels_part(rep)
    tabs = all_tables()
    full = tier == 'thorough'
    jobs = [(i, seed, full) for i in range(len(tabs))]
    total = 0
    npairs = {}
    for n, res, np_, fam in pmap(job_pairs, jobs):
        total += n
        npairs[fam] = npairs.get(fam, 0) + np_
        rep.add_many(res)
    for fam, mn in EXPECTED_MIN_PAIRS.items():
        if npairs.get(fam, 0) < mn:
            rep.add(f'pairs-present/{fam}', 'code/label pairs of the tables are discoverable',
                    dict(kind='pairs', family=fam), dict(found=npairs.get(fam, 0), expected_at_least=mn))
    for n, res in pmap(job_formulas, [(f, seed, u) for f in ('ET', 'DT', 'ES') for u in (None,) + UNIFORMS]):
        total += n
        rep.add_many(res)
    napi = 0
    acfgs = api_configs_with_neighbours(tier, seed)
    for n, res in pmap(job_api, acfgs):
        napi += n
        rep.add_many(res)
    total += napi
    novl = 0
    for n, res in pmap(job_overlap, OVERLAP_CFGS):
        novl += n
        rep.add_many(res)
    total += novl
    cov = dict(overlapping_poll_pairs=novl, api_session_histories=_api['histories'], api_session_states=_api['states'], evaluations=total + nl, api_results_checked=napi, api_configurations=len(acfgs), distinct_nontrivial=total, pinned_label_tables_compared=nl,
               rule='every (code, label) pair discovered structurally in every table: all 65536 code words (all 256 x other '
                    'half for one-byte codes); 4-byte bitmaps: all 65536 values of each half x other half in '
                    '{0,0xFFFF,0x8001}; two-word bitmaps: all 65536 values of each word x the other in {0,1,0x8000,0xFFFF}; '
                    'sums/products/formulas: full product of boundary grids over the registers involved; each '
                    'evaluation is a distinct register assignment',
               pairs_found=npairs, exhaustive=full,
               samples=[sample_pair('ET', 'all_sensors', 'work_mode_label', 2),
                        sample_pair('ET', 'all_sensors', 'errors', 0x0040),
                        sample_pair('DT', 'all_sensors', 'safety_country_label', 3)])
    return dict(level='exploration', coverage=cov,
                assumptions=['totals are compared with the parts as reported in the same result (None = 0)',
                             'products may differ from v*i by at most 0.5 (rounding mode at exact ties is not prescribed)',
                             'bitmap text format is decode_bitmap\'s documented one; the bit arithmetic is the reference\'s own'])


def replay(r):
    if r.get('part') == 'api-session':
        from .. import api_sessions
        out = api_sessions.replay(r)
        out['violations'] = [m for m in out['violations'] if m[0] == 'C13']
        return out
    if r['kind'] == 'labels':
        from ..findings import Report
        rp = Report('C13')
        pinned_labels_part(rp)
        return dict(violations=sorted(rp.by_key))
    if r['kind'] == 'overlap':
        cfg = r['cfg']
        cfg['refused'] = tuple(cfg['refused'])
        n, res = job_overlap(cfg)
        return dict(pairs=n, violations=[v['key'] for v in res])
    if r['kind'] == 'api':
        cfg = r['cfg']
        cfg['refused'] = tuple(cfg['refused'])
        if cfg.get('firmware'):
            cfg['firmware'] = cfg['firmware'].encode() if isinstance(cfg['firmware'], str) else cfg['firmware']
        n, res = job_api(cfg)
        return dict(polls=n, violations=[v['key'] for v in res])
    if r['kind'] == 'pair':
        t = [x for x in all_tables() if [x.family, x.name] == r['table']][0]
        pairs = [p for p in find_pairs(t) if p[2].id_ == r['label']]
        kind, codes, lab = pairs[0]
        resp = t.response(bytes(context(t.nbytes, 0, 5)))
        if kind == 'bitmap22':
            poke(resp, t.byte_pos(codes[0]), struct.pack('>H', r['regs'][0]))
            poke(resp, t.byte_pos(codes[1]), struct.pack('>H', r['regs'][1]))
            d, err = map2(resp, codes + (lab,))
            want = refdec.bitmap_text(d[codes[0].id_] * 65536 + d[codes[1].id_], lab._labels)
            return dict(reported=d, expected=want, violations=[] if d[lab.id_] == want else ['bitmap22'])
        return dict(note='rerun the check for this pair', violations=['see check output'])
    n, res = job_formulas((r['family'], 0))
    return dict(violations=[v['key'] for v in res if r['target'] in v['key']])
