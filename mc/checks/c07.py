"""C07 - a response split into two fragments is reassembled exactly (DESIGN 3, C07)."""
from __future__ import annotations

import struct

from .. import world, wire
from ..explore import Stats, pmap, h
from ..kernel import KLoop
from ..peer import PlanPeer, D0, EPS_FRAC
from ..proto import make_protocol, _exec

gp = world.gp
MINH = dict(rtu=5, tcp=9, aa55=9)
TOL = 1e-9


def payload(n, fill):
    return bytes(((i * 7 + 3) ^ fill) & 0xFF for i in range(n))


PL0 = dict(rtu=5, tcp=9, aa55=7)       # where the payload starts inside a response frame
# byte sequences the receive path compares against somewhere: a remainder that happens to begin with one of them is
# still the remainder (register contents are arbitrary)
MAGICS = ('aa55', 'aa557f', 'aa55c07f', 'f703', 'f783', '7f03', '0000', 'ffff', 'f7', 'aa')


def frame(framing, count, req, fill=0, at=None):
    mbap = None
    if isinstance(at, tuple) and at and at[0] == 'mbap':
        mbap, at = at[1], None
    f = _frame(framing, count, req, fill, at)
    if mbap is not None and framing == 'tcp':
        # GoodWe devices fill the MBAP length field unreliably (the library ignores it on purpose): byte count only / 0
        if mbap.startswith('tx-'):
            # ... and the transaction id: inverters that answer with a constant id, their own counter, or zero
            tx = {'tx-const': b'\x00\x01', 'tx-zero': b'\x00\x00', 'tx-plus1': struct.pack('>H', (struct.unpack('>H', req[:2])[0] + 1) & 0xFFFF),
                  'tx-ffff': b'\xff\xff'}[mbap]
            return tx + f[2:]
        ln = {'bytecount': 2 * count, 'zero': 0, 'six': 6}[mbap]
        f = f[:4] + struct.pack('>H', ln) + f[6:]
    return f


def _frame(framing, count, req, fill=0, at=None):
    pl = bytearray(payload(2 * count, fill))
    if at:                           # (position inside the FRAME, bytes): only positions inside the payload
        pos, b = at
        pl[pos - PL0[framing]:pos - PL0[framing] + len(b)] = b
        pl = pl[:2 * count]
    pl = bytes(pl)
    if framing == 'tcp':
        return wire.tcp_read_resp(req[:2], 0xF7, pl)
    if framing == 'rtu':
        return wire.rtu_read_resp(0xF7, pl)
    return wire.aa55_resp('0186', pl)


T_CTOR = [None]         # (set by job(): the timeout the object was CONSTRUCTED with, when the application changed it afterwards)
HOST_AS = [None]        # (set by job(): the inverter's host as the application configured it - a name, a short spelling)


def execute(framing, count, plan, ka, R=1, T=1.0):
    world.reset()
    peer = PlanPeer(plan)
    loop = KLoop(peer)
    p = make_protocol('tcp' if framing == 'tcp' else 'udp', T if T_CTOR[0] is None else T_CTOR[0], R, ka, host=HOST_AS[0])
    if T_CTOR[0] is not None:
        p.timeout = T       # the public attribute, changed after construction: the timeout in force is T
    cmd = p.read_command(100, count) if framing != 'aa55' else gp.Aa55ProtocolCommand("010600", "0186")
    st, res = loop.run(_exec(cmd, p))
    if st == 'hang':
        res = ('hang', res)
    reads = [(e[2], e[4]) for e in loop.kern.log if e[0] == 'rx' and e[3] == 'data']
    loop.settle(0)
    return res, peer.sent, reads, [c.get('message', '') for c in loop.unhandled]


def general_oracle(framing, count, res, sent, reads):
    """success => well-formed (C01 classifier) and built only from data read after the final transmission."""
    out = []
    if res[0] != 'ok':
        return out
    raw = res[1]
    cmd = dict(kind='aa55', rtype=b'\x01\x86') if framing == 'aa55' else dict(kind='read', count=count)
    if wire.classify_response(framing, cmd, raw) != 'wellformed':
        out.append(('result-wellformed', raw.hex()))
    t_last = sent[-1][0]
    later = [d for (t, d) in reads if t >= t_last - TOL]
    ok = False
    for i in range(len(later)):
        acc = b''
        for j in range(i, len(later)):
            acc += later[j]
            if acc == raw:
                ok = True
            if acc == raw and j - i >= 2 and framing != 'tcp':
                out.append(('checksummed:only-exact-remainder', f'{j - i + 1} datagrams combined into the result: the second one was not the exact remainder of the first'))
            if acc == raw and j > i and framing != 'tcp':
                # built from several pieces on a checksummed framing: only an *exact* remainder may complete a
                # fragment, i.e. the result is exactly as long as its header announces
                want = (5 + raw[4] + 2) if framing == 'rtu' else (raw[6] + 9)
                if len(raw) != want:
                    out.append(('checksummed:only-exact-remainder',
                                f'{len(later[i:j + 1])} pieces combined into {len(raw)} bytes, frame announces {want}'))
    if not ok:
        out.append(('no-leftover-combined', f'result {raw.hex()[:40]}.. not a concatenation of data received for the final transmission'))
    return out


# ---------------------------------------------------------------- scenario generators

def positive_cases(framing, counts, delays):
    for count in counts:
        L = len(frame(framing, count, b'\0\0'))
        for p in range(MINH[framing], L):
            for d2 in delays:
                yield ('pos', framing, count, p, d2)
        if framing == 'tcp':
            yield ('pos-coalesced', framing, count, MINH[framing] + 1, 'same')
    if framing == 'tcp':
        for count in [c for c in counts if c in (1, 3, 61)] or counts[:1]:
            L = len(_frame(framing, count, b'\0\0'))
            for mb in ('bytecount', 'zero', 'six', 'tx-const', 'tx-zero', 'tx-plus1', 'tx-ffff'):
                for p in range(MINH[framing], L):
                    if count > 3 and p not in (MINH[framing], MINH[framing] + 1, L // 2, L - 1):
                        continue
                    yield ('pos', framing, count, p, '.5T', 'mbap=' + mb)
    # the remainder begins with a byte sequence the receive path knows (header, unit + function, exception marker ...)
    for count in [c for c in counts if c in (2, 3, 61)] or counts[:1]:
        L = len(frame(framing, count, b'\0\0'))
        for m in MAGICS:
            mb = bytes.fromhex(m)
            for p in range(max(MINH[framing], PL0[framing]), L - 2 - len(mb) + 1):
                if count > 3 and p not in (PL0[framing], PL0[framing] + 1, L // 2, L - 2 - len(mb)):
                    continue
                yield ('pos', framing, count, p, '.5T', m)


def second_pieces(framing, count, F, p, G):
    rem = F[p:]
    bits = range(len(rem) * 8) if count <= 2 else [i * 8 + (i % 8) for i in range(len(rem))]
    for b in bits:
        x = bytearray(rem)
        x[b // 8] ^= 1 << (b % 8)
        yield (f'bitflip', bytes(x))
    yield ('rem+1', rem + b'\x00')
    if len(rem) > 1:
        yield ('rem-1', rem[:-1])
    yield ('other-block', G[p:])
    yield ('full-frame', F)
    yield ('garbage', bytes((i * 37 + 11) & 0xFF for i in range(len(rem))))
    # the remainder itself arrives in two pieces (three datagrams in all): the second datagram is not the exact remainder
    for k in sorted({1, len(rem) // 2, len(rem) - 1}):
        if 0 < k < len(rem):
            yield (f'rem-in-two@{k}', (rem[:k], rem[k:]))


def run_case(case, ka, T=1.0):
    kind, framing, count, p = case[0], case[1], case[2], case[3]
    e = EPS_FRAC * T
    vio = []
    if kind in ('pos', 'pos-coalesced'):
        d2name = case[4]
        d2 = {'0+': 2 * D0, '.5T': .5 * T, 'T-e': T - e, 'same': D0}[d2name]

        at = (('mbap', case[5][5:]) if str(case[5]).startswith('mbap=') else (p, bytes.fromhex(case[5]))) if len(case) > 5 else None

        def plan(k, req, now):
            if k:
                return []
            F = frame(framing, count, req, at=at)
            return [(D0, ('data', F[:p])), (d2, ('data', F[p:]))]
        res, sent, reads, unh = execute(framing, count, plan, ka, T=T)
        F = frame(framing, count, sent[0][2], at=at)
        if not (res[0] == 'ok' and res[1] == F and len(sent) == 1):
            vio.append(('reassembled-exactly', f'{res[0]} tx={len(sent)}'))
        vio += general_oracle(framing, count, res, sent, reads)
        return vio, (res[0], len(sent))
    if kind == 'neg':
        name, piece = case[4], case[5]

        def plan(k, req, now):
            if k:
                return [(D0, ('data', frame(framing, count, req, fill=k)))]
            F = frame(framing, count, req)
            if isinstance(piece, tuple):
                return [(D0, ('data', F[:p])), (.3 * T, ('data', piece[0])), (.4 * T, ('data', piece[1]))]
            return [(D0, ('data', F[:p])), (.3 * T, ('data', piece))]
        res, sent, reads, unh = execute(framing, count, plan, ka, R=1)
        # checksummed framings: whatever is accepted must be a well-formed frame (CRC / sum verified by the
        # independent classifier) made only of data received for the final transmission - the general oracle.
        vio += general_oracle(framing, count, res, sent, reads)
        return vio, (res[0], len(sent))
    if kind == 'left':
        late, tx2, same = case[4], case[5], case[6]
        dl = {'none': None, 'T+e': T + e, '1.5T': 1.5 * T}[late]

        def plan(k, req, now):
            fill = 0 if same else k
            F = frame(framing, count, req, fill=fill)
            if k == 0:
                out = [(D0, ('data', F[:p]))]
                if dl:
                    out.append((dl, ('data', F[p:])))
                return out
            if k == 1:
                if tx2 == 'rem-shaped':
                    return [(0.6 * T, ('data', F[p:]))]
                if tx2 == 'frag2':
                    return [(0.6 * T, ('data', F[:p])), (0.7 * T, ('data', F[p:]))]
                if tx2 == 'full':
                    return [(0.6 * T, ('data', F))]
                return []
            return [(D0, ('data', F))]
        res, sent, reads, unh = execute(framing, count, plan, ka, R=2)
        vio += general_oracle(framing, count, res, sent, reads)
        if res[0] == 'hang':
            vio.append(('terminates', res[1]))
        return vio, (res[0], len(sent))
    if kind == 'pair':
        # a second protocol object is active in the same process between the two pieces of this object's answer
        what = case[4]
        world.reset()
        reqs = {}

        def plan(k, req, now):
            key = req[2:] if framing == 'tcp' else req
            if key not in reqs:
                reqs[key] = len(reqs)
            F = frame(framing, count, req, fill=11 * reqs[key])
            if reqs[key] == 0:
                return [(D0, ('data', F[:p])), (.5 * T, ('data', F[p:]))]
            if what == 'b-fragmented':
                return [(D0, ('data', F[:p])), (.6 * T, ('data', F[p:]))]
            return [(D0, ('data', F))]
        peer = PlanPeer(plan)
        loop = KLoop(peer)
        tr = 'tcp' if framing == 'tcp' else 'udp'
        pa, pb = make_protocol(tr, T, 1, ka), make_protocol(tr, T, 1, ka)
        mk = (lambda pr, r: pr.read_command(r, count)) if framing != 'aa55' else (lambda pr, r: gp.Aa55ProtocolCommand("010600" if r == 100 else "010900", "0186" if r == 100 else "0189"))
        import asyncio as _a

        async def both():
            async def second():
                await _a.sleep(.2 * T)
                return await _exec(mk(pb, 200), pb)
            return await _a.gather(_exec(mk(pa, 100), pa), second())
        st, res = loop.run(both())
        if st == 'hang':
            return [('terminates', str(res))], ('hang', 0)
        ra, rb = res
        na = sum(1 for t, fd, d, _ in peer.sent if (d[2:] if framing == 'tcp' else d) == (mk(pa, 100).request[2:] if framing == 'tcp' else mk(pa, 100).request))
        Fa = None
        for t, fd, d, _ in peer.sent:
            key = d[2:] if framing == 'tcp' else d
            if reqs.get(key) == 0:
                Fa = frame(framing, count, d, fill=0)
                break
        if framing == 'aa55' and False:
            pass
        if not (ra[0] == 'ok' and ra[1] == Fa and na == 1):
            vio.append(('reassembled-exactly', f'object A with a second object active: {ra[0]} transmissions={na}'))
        if rb[0] != 'ok':
            vio.append(('reassembled-exactly', f'second object: {rb[:2]}'))
        return vio, (ra[0], na)
    if kind in ('cross', 'cross-newloop'):
        # a fragment left over from an EARLIER REQUEST (ended by an exception frame, a timeout or a late remainder)
        # must not be combined with data received for the next request on the same object
        endA, txB, same = case[4], case[5], case[6]
        world.reset()
        state = dict(phase='A', nA=0)

        def plan(k, req, now):
            if state['phase'] == 'A':
                state['nA'] += 1
                F = frame(framing, count, req, fill=0)
                out = [(D0, ('data', F[:p]))]
                if endA == 'success-fragmented':
                    out.append((.2 * T, ('data', F[p:])))
                elif endA == 'exception' and framing != 'aa55':
                    out.append((.3 * T, ('data', wire.rtu_exc_resp(0xF7, 3, 2) if framing == 'rtu' else wire.tcp_exc_resp(req[:2], 0xF7, 3, 2))))
                elif endA == 'late-remainder':
                    out.append((1.2 * T, ('data', F[p:])))
                return out
            F = frame(framing, count, req, fill=0 if same else 7)
            kk = k - state['nA']
            if kk == 0:
                if txB == 'frag2':
                    return [(D0, ('data', F[:p])), (.3 * T, ('data', F[p:]))]
                if txB == 'rem-shaped':
                    return [(D0, ('data', F[p:]))]
                if txB == 'first-piece-only':
                    return [(D0, ('data', F[:p]))]
                if txB == 'frag2-slow':
                    return [(.5 * T, ('data', F[:p])), (.95 * T, ('data', F[p:]))]
            return [(D0, ('data', F))]
        peer = PlanPeer(plan)
        loop = KLoop(peer)
        pr = make_protocol('tcp' if framing == 'tcp' else 'udp', T, 1, ka)
        mk = (lambda: pr.read_command(100, count)) if framing != 'aa55' else (lambda: gp.Aa55ProtocolCommand("010600", "0186"))
        loop.run(_exec(mk(), pr))
        state['phase'] = 'B'
        if kind == 'cross-newloop':
            # the object lives on, the second request is made from the next asyncio.run()
            loop.shutdown_like_asyncio_run()
            loop = KLoop(kern=loop.kern)
        nA = len(peer.sent)
        st, res = loop.run(_exec(mk(), pr))
        if st == 'hang':
            res = ('hang', res)
        tB = peer.sent[nA][0] if len(peer.sent) > nA else 0.0
        reads = [(e[2], e[4]) for e in loop.kern.log if e[0] == 'rx' and e[3] == 'data' and e[2] >= tB - TOL]
        vio += general_oracle(framing, count, res, peer.sent[nA:], reads) if len(peer.sent) > nA else []
        if res[0] == 'hang':
            vio.append(('terminates', res[1]))
        if txB in ('frag2', 'frag2-slow') and not (res[0] == 'ok' and len(peer.sent) - nA == 1):
            # B's own answer arrives in two pieces within its timeout: positive obligation, whatever request A left behind
            vio.append(('reassembled-exactly', f'second request after {endA}: {res[0]} with {len(peer.sent) - nA} transmissions'))
        return vio, (res[0], len(peer.sent) - nA)
    raise ValueError(kind)


def cases_for(framing, tier):
    counts = list(range(1, 126)) if tier == 'thorough' else [1, 2, 61, 125]
    yield from positive_cases(framing, counts, ['0+', '.5T', 'T-e'])
    ncounts = [1, 2, 3, 61, 125] if tier == 'thorough' else [1, 2, 61]
    for count in ncounts:
        F = frame(framing, count, b'\0\x07')
        G = frame(framing, count, b'\0\x07', fill=0x55)
        L = len(F)
        ps = range(MINH[framing], L) if count <= 3 else [MINH[framing], MINH[framing] + 1, L // 2, L - 3, L - 2, L - 1]
        for p in ps:
            for name, piece in second_pieces(framing, count, F, p, G):
                yield ('neg', framing, count, p, name, piece)
    for count in ([1, 2, 3, 61] if tier == 'thorough' else [1, 3]):
        L = len(frame(framing, count, b'\0\0'))
        ps = range(MINH[framing], L) if count <= 3 else [MINH[framing], L // 2, L - 1]
        for p in ps:
            for endA in ('exception', 'timeout', 'late-remainder', 'success-fragmented'):
                for txB in ('frag2', 'frag2-slow', 'rem-shaped', 'first-piece-only', 'full'):
                    for same in (True, False):
                        yield ('cross', framing, count, p, endA, txB, same)
                        if endA in ('success-fragmented', 'timeout') and txB in ('frag2', 'frag2-slow') and same:
                            yield ('cross-newloop', framing, count, p, endA, txB, same)
    for count in ([1, 3, 61, 125] if tier == 'thorough' else [3]):
        L = len(frame(framing, count, b'\0\0'))
        for p in (range(MINH[framing], L) if count <= 3 else [MINH[framing], L // 2, L - 1]):
            for what in ('b-complete', 'b-fragmented'):
                if framing != 'aa55':
                    yield ('pair', framing, count, p, what)
    lcounts = [1, 2, 3, 61] if tier == 'thorough' else [1, 3]
    for count in lcounts:
        L = len(frame(framing, count, b'\0\0'))
        ps = range(MINH[framing], L) if count <= 3 else [MINH[framing], L // 2, L - 1]
        for p in ps:
            for late in ('none', 'T+e', '1.5T'):
                for tx2 in ('silent', 'rem-shaped', 'frag2', 'full'):
                    for same in (True, False):
                        yield ('left', framing, count, p, late, tx2, same)


def job(j):
    framing, tier, ka, part, nparts = j
    n = 0
    oc = {}
    vio = {}
    states = set()
    sample = None
    for i, case in enumerate(cases_for(framing, tier)):
        if i % nparts != part:
            continue
        v, o = run_case(case, ka)
        if case[0] == 'pos' and len(case) == 5 and case[2] in (2, 61) and case[3] % 3 == 0:
            # the same split with other configured timeouts (the delays are fractions of the timeout)
            for T_ in (3.0, 0.5, 7):
                v2, o2 = run_case(case, ka, T=T_)
                n += 1
                for clause, cause in v2:
                    key = f'{clause}/{framing}/ka={int(ka)}/pos:{case[4]}/timeout={T_}'
                    vio.setdefault(key, []).append((clause, case + (('T', T_),), cause))
            # the timeout was changed after the object was constructed (built with 0.2 s / 5 s, then set to 1 s)
            for t0 in (0.2, 5):
                T_CTOR[0] = t0
                try:
                    v2, o2 = run_case(case, ka)
                finally:
                    T_CTOR[0] = None
                n += 1
                for clause, cause in v2:
                    key = f'{clause}/{framing}/ka={int(ka)}/pos:{case[4]}/timeout-changed-after-construction'
                    vio.setdefault(key, []).append((clause, case + (('tctor', t0),), cause))
            # the inverter's host configured as a name / a short spelling (the kernel model resolves it; datagrams come from
            # the resolved address)
            for host in ('inverter.local', '10.0.2'):
                HOST_AS[0] = host
                try:
                    v2, o2 = run_case(case, ka)
                finally:
                    HOST_AS[0] = None
                n += 1
                for clause, cause in v2:
                    key = f'{clause}/{framing}/ka={int(ka)}/pos:{case[4]}/host-given-as-a-name'
                    vio.setdefault(key, []).append((clause, case + (('host', host),), cause))
        n += 1
        oc[(case[0],) + o] = oc.get((case[0],) + o, 0) + 1
        states.add(h((framing, ka, case[0], case[2], case[3], o)))
        if sample is None and case[0] == 'left':
            sample = dict(framing=framing, ka=ka, case=[c.hex() if isinstance(c, bytes) else c for c in case], outcome=o)
        for clause, cause in v:
            sub = case[4] if case[0] in ('neg',) else (f'{case[4]}/{case[5]}' if case[0] in ('left', 'cross', 'cross-newloop') else case[4])
            if case[0] == 'pos' and len(case) > 5:
                sub = f'remainder-begins-with-{case[5]}' if not str(case[5]).startswith('mbap=') else (f'unreliable-length-field:{case[5][5:]}' if not case[5][5:].startswith('tx-') else f'answer-carries-another-transaction-id:{case[5][8:]}')
            key = f'{clause}/{framing}/ka={int(ka)}/{case[0]}:{sub}'
            vio.setdefault(key, []).append((clause, case, cause))
    out = []
    for key, lst in vio.items():
        clause, case, cause = lst[0]
        Tq = 1.0
        if case and isinstance(case[-1], tuple) and case[-1][0] == 'T':
            Tq = case[-1][1]
            case = case[:-1]
        hostq = tctorq = None
        if case and isinstance(case[-1], tuple) and case[-1][0] == 'host':
            hostq = HOST_AS[0] = case[-1][1]
            case = case[:-1]
        if case and isinstance(case[-1], tuple) and case[-1][0] == 'tctor':
            tctorq = T_CTOR[0] = case[-1][1]
            case = case[:-1]
        try:
            v2, _ = run_case(case, ka, T=Tq)
        finally:
            HOST_AS[0] = None
            T_CTOR[0] = None
        if not any(c == clause for c, _ in v2):
            key = key + '/order-dependent'
            cause = f'{cause}; ' + 'failed during exploration but not on a fresh replay: the outcome depends on earlier executions in the same process (state outside the objects under test leaks between executions)'
        out.append(dict(key=key, clause=clause, n=len(lst), replay=dict(case=list(case), ka=ka, T=Tq, host=hostq, tctor=tctorq),
                        detail=dict(cause=cause, count=case[2], split=case[3])))
    return n, oc, out, states, sample


def run(tier, seed, rep):
    # histories of several requests on one object under the full fault alphabet (mc/sessions.py)
    from .. import sessions
    _ses = sessions.explore_sessions(tier, seed, {'C07'}, light=True)
    rep.add_many([v for v in _ses.violations if v['prop'] == 'C07'])
    # a fragmented answer while other callers (asking for blocks of other lengths) queue on the same object
    from . import c06
    novl, ovl = c06.acceptance_stage(tier, seed, ('frag2@.4T',))
    for v in ovl:
        v['key'] = 'overlapping-callers:' + v['key']
    rep.add_many(ovl)
    nparts = 8 if tier == 'thorough' else 2
    jobs = [(f, tier, ka, part, nparts) for f in ('rtu', 'tcp', 'aa55') for ka in (False, True) for part in range(nparts)]
    k = seed % len(jobs)
    jobs = jobs[k:] + jobs[:k]
    total = 0
    ocs = {}
    states = set()
    samples = []
    for j, (n, oc, out, sts, sample) in zip(jobs, pmap(job, jobs)):
        total += n
        states |= sts
        for kk, v in oc.items():
            ocs[kk] = ocs.get(kk, 0) + v
        rep.add_many(out)
        if sample and len(samples) < 3:
            samples.append(sample)
    cov = dict(overlapping_caller_executions=novl, session_histories=_ses.executions, session_states=len(_ses.states), session_choice_points=_ses.choice_points,
               states=len(states), transitions=total, executions=total, traces_validated_against_impl=total,
               outcome_classes={str(k): v for k, v in sorted(ocs.items(), key=str)}, exhaustive=True,
               bound=('counts 1..125' if tier == 'thorough' else 'counts {1,2,61,125}') +
                     ' x every split point from the minimal header to len-1 x second-piece delay {next iteration, '
                     '0.5T, T-eps} x keep-alive on/off x {RTU/UDP, AA55/UDP, MBAP/TCP}; negative second pieces '
                     '(every bit flip for counts<=2) and left-over-fragment scenarios over two transmissions',
               state_definition='(framing, keep-alive, scenario kind, count, split point, outcome) - one state per '
                                'distinct reassembly situation; transitions = executions',
               samples=samples)
    return dict(level='model_checking', coverage=cov,
                assumptions=['"within the timeout" = before transmission time + T (narrowest reading)',
                             'corruptions are single-bit / single-byte so CRC-16 and the additive sum must notice',
                             'kernel model; CPython 3.12 transports (stream transport coalesces simultaneous pieces)'])


def replay(r):
    if r.get('part') == 'session':
        from .. import sessions
        out = sessions.replay(r)
        out['violations'] = [m for m in out['violations'] if m[0] == 'C07']
        return out
    if r.get('part') == 'overlap':
        from . import c06
        out = c06.replay(r)
        out['violations'] = [v for v in out['violations'] if v[0].startswith('answered-at-once:frag')]
        return out
    def unhex(c):
        if isinstance(c, dict) and 'hex' in c:
            return bytes.fromhex(c['hex'])
        if isinstance(c, list) and c and all(isinstance(x, dict) and 'hex' in x for x in c):
            return tuple(bytes.fromhex(x['hex']) for x in c)      # (a remainder delivered in several datagrams)
        return c
    case = [unhex(c) for c in r['case']]
    HOST_AS[0] = r.get('host')
    T_CTOR[0] = r.get('tctor')
    try:
        v, o = run_case(tuple(case), r['ka'], T=r.get('T', 1.0))
    finally:
        HOST_AS[0] = None
        T_CTOR[0] = None
    return dict(case=[c.hex() if isinstance(c, bytes) else c for c in case], outcome=o, violations=v)
