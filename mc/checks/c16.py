"""C16 - reading a single sensor gives the same value as the bulk read (DESIGN 3, C16)."""
from __future__ import annotations

import collections

from .. import world, refdec
from ..configs import make_rig, classes_of, serial_for, ET_TAGS, DT_TAGS, POWERS
from ..devsim import ET_OPTIONAL, DT_OPTIONAL
from ..explore import pmap, h
from ..blocks import context


def rep_configs(tier, seed):
    """One representative per predicate class x power class (ET), every class of DT, one ES."""
    out = []
    by = {}
    for t in ET_TAGS:
        by.setdefault(classes_of(serial_for(t)), []).append(t)
    for cls, tags in by.items():
        tag = tags[seed % len(tags)]
        for p in ((3000, 15000, 25000) if tier == 'thorough' else (3000, 25000)):
            out.append(dict(family='ET', tag=tag, power=p, refused=(), battery_mode=2))
    by = {}
    for t in DT_TAGS:
        by.setdefault(classes_of(serial_for(t)), []).append(t)
    for cls, tags in by.items():
        out.append(dict(family='DT', tag=tags[seed % len(tags)], power=5000, refused=(), battery_mode=0))
    out.append(dict(family='ES', tag='ESU', power=5000, refused=(), battery_mode=0))
    return out


def fills(seed):
    ctx = [context(4, seed, k) for k in range(2)]
    yield 'seed-context', lambda a: ((a * 40503 + seed * 977 + 12345) >> 3) & 0xFFFF
    yield 'small-values', lambda a: (a * 7 + seed) % 1000
    yield 'all-ffff', lambda a: 0xFFFF
    yield 'all-8000', lambda a: 0x8000
    yield 'all-7fff', lambda a: 0x7FFF


# a device change alone is invisible to the inverter until it reads: changes come with the runtime read that notices
HIST = ['runtime', 'sensor:first', 'dev:battery-off', 'dev:battery-on', 'dev:refuse-mppt', 'dev:accept-mppt',
        'dev:refuse-battery2', 'dev:refuse-meter-ext2', 'dev:refuse-meter-ext', 'settings:colliding', 'sensor:all',
        'dev:refuse-battery', 'dev:accept-all', 'devq:refuse-battery', 'devq:accept-all',
        'devq:regs=zero', 'devq:regs=ffff', 'devq:regs=other', 'dev:regs=healthy', 'dev:regs=zero']
# (devq: = the device changes and NO runtime read follows: the next call of the history is the first to notice)
HIST_DT = ['runtime', 'sensor:first', 'sensor:all', 'settings:colliding', 'dev:refuse-meter', 'dev:accept-all',
           'devq:refuse-meter', 'devq:accept-all', 'devq:regs=zero', 'devq:regs=ffff', 'devq:regs=other', 'dev:regs=healthy', 'dev:regs=zero']


def apply(r, cfg, name):
    inv, dev = r.inv, r.dev
    quiet = name.startswith('devq:')
    if quiet:
        name = 'dev:' + name[5:]
    if name == 'runtime':
        r.call(inv.read_runtime_data)
    elif name == 'sensor:first':
        r.call(inv.read_sensor, world.listed(inv)[1].id_)
    elif name == 'sensor:all':
        for x in world.listed(inv):
            r.call(inv.read_sensor, x.id_)
    elif name == 'settings:colliding':
        # ids that exist both as a sensor and as a setting (different registers): the other entry point first
        both = {x.id_ for x in world.listed(inv)} & {x.id_ for x in inv.settings()}
        for sid in sorted(both):
            r.call(inv.read_setting, sid)
    elif name == 'dev:battery-off':
        dev.rf.set(35184, 0)
    elif name == 'dev:battery-on':
        dev.rf.set(35184, 2)
    elif name == 'dev:refuse-mppt':
        dev.refused = [x for x in dev.refused if x not in ET_OPTIONAL['mppt']] + ET_OPTIONAL['mppt']
    elif name == 'dev:accept-mppt':
        dev.refused = [x for x in dev.refused if x not in ET_OPTIONAL['mppt']]
    elif name == 'dev:refuse-battery2':
        dev.refused = dev.refused + ET_OPTIONAL['battery2']
    elif name == 'dev:refuse-meter-ext2':
        dev.refused = dev.refused + ET_OPTIONAL['meter_ext2']
    elif name == 'dev:refuse-battery':
        dev.refused = dev.refused + ET_OPTIONAL['battery']
    elif name == 'dev:refuse-meter':
        from ..devsim import DT_OPTIONAL
        dev.refused = dev.refused + DT_OPTIONAL['meter']
    elif name.startswith('dev:regs='):
        # the measured values change (night: counters and powers read 0 / 'no value'; another day: other values)
        what = name.split('=')[1]
        from .c11_settings import _healthy      # (a valid inverter clock, small values elsewhere: everything decodes)
        dev.rf.fill = {'zero': (lambda a: 0), 'ffff': (lambda a: 0xFFFF), 'other': (lambda a: (a * 7919 + 13) & 0x7FFF), 'healthy': _healthy}[what]
        dev.fill_name = what
    elif name == 'dev:accept-all':
        dev.refused = []           # the hardware is there now (battery commissioned, meter connected)
    elif name == 'dev:refuse-meter-ext':
        dev.refused = dev.refused + ET_OPTIONAL['meter_ext'] + ET_OPTIONAL['meter_ext2']
    if name.startswith('dev:') and not quiet:
        r.call(inv.read_runtime_data)


def sweep(cfg, fill, hist, transport='udp'):
    keep = False
    if cfg.get('other_object_first'):
        # another object of the family - the other transport, so other command classes and framing - reads every id singly
        # before this object exists (own inverter, same register contents)
        world.reset()
        r0 = make_rig({k: v for k, v in cfg.items() if k != 'other_object_first'}, 'tcp' if transport == 'udp' else 'udp', fill=fill, keep_world=True)
        if r0.call(r0.inv.read_device_info)[0] == 'ok':
            r0.call(r0.inv.read_runtime_data)
            for x in world.listed(r0.inv):
                r0.call(r0.inv.read_sensor, x.id_)
            for x in r0.inv.settings():
                r0.call(r0.inv.read_setting, x.id_)
        keep = True
    r = make_rig(cfg, transport, fill=fill, keep_world=keep)
    inv, dev = r.inv, r.dev
    if cfg['family'] in ('ET',):
        dev.rf.set(35184, cfg['battery_mode'])
    if cfg['family'] == 'ES':
        pass
    di = r.call(inv.read_device_info)
    if di[0] != 'ok':
        return [('device-info', str(di), None)], None, 0
    for name in hist:
        if cfg['family'] == 'ET' or name in ('runtime', 'sensor:first', 'sensor:all', 'settings:colliding') or \
                (cfg['family'] == 'DT' and name in HIST_DT):
            apply(r, cfg, name)
    from ..explore import obj_state
    state = (obj_state(inv, r.loop.time()), obj_state(inv._protocol, r.loop.time()) if hasattr(inv, '_protocol') else None,
             tuple(sorted((k, v) for k, v in vars(inv).items() if k.startswith('_has'))),
             inv._sensors_map is None if hasattr(inv, '_sensors_map') else None,
             tuple(sorted(inv._sensors_map)) if getattr(inv, '_sensors_map', None) else None,
             tuple(dev.refused) if hasattr(dev, 'refused') else None, dev.rf.get(35184) if cfg['family'] == 'ET' else None,
             getattr(dev, 'fill_name', None))
    ids = world.listed(inv)
    if ids.error:
        return [('sensors()-works', ids.error, None)], h(state), 0
    ids = list(ids)
    if len(hist) >= 2:
        # deeper histories: one representative per (type, hundred-register range) instead of every id (every id is swept
        # after the empty and the one-letter histories)
        seen_k = set()
        reps = []
        for s in ids:
            k = (type(s).__name__, s.offset // 100)
            if k not in seen_k:
                seen_k.add(k)
                reps.append(s)
        ids = reps
    singles = {}
    for s in ids:
        singles[s.id_] = r.call(inv.read_sensor, s.id_)
    # single reads that are IN FLIGHT TOGETHER on the object: ids sharing registers (code / label pairs), and an id
    # asked for twice - each caller gets the value the bulk read reports
    conc = {}
    if len(hist) <= 1:
        import asyncio
        byoff = {}
        for s in ids:
            if type(s).__name__ not in ('Calculated', 'EnumCalculated', 'EnumBitmap22'):
                byoff.setdefault(s.offset, []).append(s.id_)
        groups = [g + [g[0]] for g in byoff.values() if len(g) > 1][:12] + [[ids[1].id_, ids[1].id_, ids[2].id_]]
        for g in groups:
            async def many(g=g):
                return await asyncio.gather(*[inv.read_sensor(x) for x in g], return_exceptions=True)
            res = r.call(many)
            if res[0] == 'ok':
                for x, v in zip(g, res[1]):
                    conc.setdefault(x, []).append(v)
    from .c14 import Probe
    with Probe() as probe:
        bulk = r.call(inv.read_runtime_data)
    fabricated = {x[0] for x in probe.short}   # decoded from missing bytes: C14's finding, not reported twice
    vio = []
    if bulk[0] != 'ok':
        return [('bulk-read', str(bulk), None)], h(state), len(ids)
    data = bulk[1]
    after = world.listed(inv)
    still = {x.id_ for x in after}
    for s in ids:
        if s.id_ not in data:
            # capability changed under the bulk read: values cannot be compared (the key sets are C15's business) - but an id
            # that is STILL listed after the bulk read must not be unknown to read_sensor
            one = singles[s.id_]
            if s.id_ in still and one[0] == 'exc' and one[1] == 'ValueError' and 'nknown sensor' in one[2]:
                vio.append((f'unknown-sensor/{type(s).__name__}', f'read_sensor({s.id_!r}): {one[2]}; sensors() lists the id before and '
                                                                  f'after the bulk read (which does not report it)', s.id_))
            continue
        one = singles[s.id_]
        b = data[s.id_]
        t = type(s).__name__
        if s.id_ in fabricated and not (one[0] == 'exc' and one[1] == 'ValueError' and 'nknown sensor' in one[2]):
            continue   # bulk value decoded from missing bytes: C14's finding, the differing value is not reported twice
        if one[0] == 'exc':
            if one[1] == 'NotImplementedError':
                vio.append((f'not-implemented/{t}', f'read_sensor({s.id_!r}) raised NotImplementedError', s.id_))
            elif one[1] == 'ValueError' and 'nknown sensor' in one[2]:
                if 'nknown sensor/setting' in one[2]:
                    # the bulk read of the very same state reports this id (ids the bulk read drops were skipped above)
                    vio.append((f'unknown-sensor/{t}', f'read_sensor({s.id_!r}): {one[2]}; the bulk read reports {b!r}', s.id_))
                else:
                    vio.append(('stale-id-map', f'read_sensor({s.id_!r}) says unknown sensor although sensors() lists it', s.id_))
            elif one[1] == 'ValueError':
                if b is not None:
                    vio.append((f'value-differs/{t}', f'{s.id_}: single read ValueError, bulk {b!r}', s.id_))
            else:
                vio.append((f'raises/{t}/{one[1]}', f'read_sensor({s.id_!r}) raised {one[1]}: {one[2]}', s.id_))
            continue
        v = one[1]
        if not (refdec.same(v, b) or (v is None and b is None) or v == b):
            if t in ('Calculated', 'EnumCalculated'):
                vio.append((f'no-single-read-path/{t}', f'{s.id_}: single read {v!r}, bulk {b!r}', s.id_))
            elif refdec.size_of(s) and s.size_ < refdec.size_of(s) and t not in ('ByteL', 'EnumL'):
                vio.append((f'size-mismatch/{t}', f'{s.id_}: declared size_ {s.size_}, decodes {refdec.size_of(s)} bytes: '
                                                  f'single read {v!r}, bulk {b!r}', s.id_))
            else:
                vio.append((f'value-differs/{t}', f'{s.id_}: single read {v!r}, bulk {b!r}', s.id_))
    for sid, vals in conc.items():
        if sid not in data or sid in fabricated:
            continue
        s = [x for x in ids if x.id_ == sid][0]
        for v in vals:
            if isinstance(v, BaseException):
                if not (isinstance(v, ValueError) and data[sid] is None):
                    vio.append((f'concurrent-single-reads/{type(s).__name__}', f'{sid}: {type(v).__name__} while the bulk read reports {data[sid]!r}', sid))
            elif not (refdec.same(v, data[sid]) or v == data[sid]):
                vio.append((f'concurrent-single-reads/{type(s).__name__}', f'{sid}: a caller of overlapping single reads got {v!r}, bulk {data[sid]!r}', sid))
    if dev.bad:
        vio.append(('requests-parse', str(dev.bad[0][1]), None))
    return vio, h(state), len(ids)


def _known16():
    from ..findings import Report
    global _KNOWN16
    try:
        return _KNOWN16
    except NameError:
        _KNOWN16 = set(Report('C16').known)
        return _KNOWN16


def job(j):
    cfg, fname, seed, depth, transport = j[:5]
    root = j[5] if len(j) > 5 else None        # subtree of one first letter (the subtrees are explored in parallel)
    fill = dict(fills(seed))[fname]
    out = {}
    n = nids = 0
    seen = set()
    frontier = collections.deque([[root] if root else []])
    letters = HIST if cfg['family'] == 'ET' else HIST_DT if cfg['family'] == 'DT' else \
        ['runtime', 'sensor:first', 'sensor:all', 'settings:colliding']
    states = set()
    edges = 0
    while frontier:
        hist = frontier.popleft()
        vio, st, k = sweep(cfg, fill, hist, transport)
        n += 1
        nids += k
        for key, cause, sid in vio:
            kk = f"{key}/{cfg['family']}"
            if cfg.get('other_object_first') and ('C16', kk) not in _known16():
                kk += '/another-object-read-first'       # (a recorded finding keeps its identity whatever the history)
            out.setdefault(kk, []).append(dict(key=kk, clause=key.split('/')[0],
                                               replay=dict(cfg=cfg, fill=fname, history=hist, transport=transport, sensor=sid),
                                               detail=dict(cause=cause, history=hist)))
        if st in seen or st is None:
            continue
        seen.add(st)
        states.add(st)
        if len(hist) >= (depth if cfg['family'] != 'ES' else min(depth, 1)) or (root is None and depth > 1):
            continue       # (with depth > 1 the root job evaluates the empty history only)
        for nm in letters:
            frontier.append(hist + [nm])
            edges += 1
    res = []
    for key, lst in out.items():
        lst.sort(key=lambda v: len(v['replay']['history']))
        lst[0]['n'] = len(lst)
        res.append(lst[0])
    return n, nids, res, states, edges


def sample_history(cfg, seed, hist):
    vio, st, k = sweep(cfg, dict(fills(seed))['seed-context'], hist)
    return dict(cfg=cfg, history=hist, sensor_ids_swept=k, disagreements=sorted({v[0] for v in vio}))


def run(tier, seed, rep):
    # histories of public API calls and device changes on one object, then probes of the API-level properties
    from .. import api_sessions
    _api = api_sessions.explore(tier, seed, {'C16'})
    rep.add_many([v for v in _api['violations'] if v['prop'] == 'C16'])
    cfgs = rep_configs(tier, seed)
    depth = 3 if tier == 'thorough' else 1
    jobs = []
    for cfg in cfgs:
        for i, (fname, _) in enumerate(fills(seed)):
            d = depth if fname == 'seed-context' else 0
            if tier != 'thorough' and fname == 'seed-context' and cfg is cfgs[0]:
                d = 3
            if cfg['family'] == 'DT' and fname == 'seed-context' and d < 3 and cfg is [c for c in cfgs if c['family'] == 'DT'][0]:
                d = 3
            jobs.append((cfg, fname, seed, d, 'udp'))
            if d > 1:
                lt = HIST if cfg['family'] == 'ET' else HIST_DT if cfg['family'] == 'DT' else []
                jobs += [(cfg, fname, seed, d, 'udp', first) for first in lt]
        jobs.append((cfg, 'small-values', seed, 1, 'tcp' if cfg['family'] != 'ES' else 'udp'))
        if cfg['family'] != 'ES':
            jobs.append((dict(cfg, other_object_first=True), 'seed-context', seed, 1, 'udp'))
            jobs.append((dict(cfg, other_object_first=True), 'small-values', seed, 0, 'tcp'))
    total = nids = edges = 0
    states = set()
    for n, k, res, sts, e in pmap(job, jobs):
        total += n
        nids += k
        edges += e
        states |= sts
        rep.add_many(res)
    cov = dict(api_session_histories=_api['histories'], api_session_states=_api['states'],
               states=len(states), transitions=max(edges, 1), executions=total, traces_validated_against_impl=total,
               single_sensor_reads=nids, configurations=len(cfgs), exhaustive=True,
               bound=f'one representative model per predicate class x power class; register files: seed context, small '
                     f'values, all-0xFFFF/0x8000/0x7FFF; BFS over capability-changing histories of depth <= {depth} '
                     f'(runtime read, single read, battery appears/disappears, blocks become refused/accepted) followed '
                     f'by a sweep over every id of sensors()',
               samples=[sample_history(cfgs[0], seed, ['dev:battery-off', 'sensor:first', 'dev:battery-on'])])
    return dict(level='model_checking', coverage=cov,
                assumptions=['device model with a static register file between the single read and the bulk read',
                             'documented size of a type from mc/refdec.size_of'])


def replay(r):
    if r.get('part') == 'api-session':
        from .. import api_sessions
        out = api_sessions.replay(r)
        out['violations'] = [m for m in out['violations'] if m[0] == 'C16']
        return out
    cfg = r['cfg']
    cfg['refused'] = tuple(cfg['refused'])
    vio, st, k = sweep(cfg, dict(fills(0))[r['fill']], r['history'], r['transport'])
    return dict(ids=k, violations=[(a, b) for a, b, c in vio if c == r.get('sensor') or r.get('sensor') is None])
