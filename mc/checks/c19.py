"""C19 - operation mode, export limit and DoD setters round-trip with their getters (DESIGN 3, C19)."""
from __future__ import annotations

import itertools
import struct

from .. import world, refdec
from ..configs import make_rig
from ..explore import pmap, h
from ..sensor_enum import ECO_V1_BASE, SCHED_BASE

gs = world.gs
OM = world.goodwe.OperationMode
ST = gs.ScheduleType


# ------------------------------------------------------------------ encoder level (exhaustive)

def is_247(ref):
    return ref is not refdec.NOVALUE and (ref['start_h'], ref['start_m'], ref['end_h'], ref['end_m']) == (0, 0, 23, 59) \
        and ref['day_bits'] == 127


def classify_group(ref, v2):
    """Reference classification of an eco group per the OperationMode docstring: enabled 00:00-23:59 all-days group
    with negative power = charge, positive = discharge."""
    if ref is refdec.NOVALUE or not is_247(ref):
        return 'other'
    on = ref['on_off'] < 0 if v2 else ref['on_off'] != 0
    if not on:
        return 'other'
    if v2 and ref['schedule_type'] not in (0, 6):
        return 'other'
    if v2 and ref['month_bits'] not in (0, 0x0FFF):
        return 'other'
    return 'charge' if ref['power'] < 0 else 'discharge' if ref['power'] > 0 else 'other'


def encoder_job(j):
    kind, start_type, is745 = j
    vio = {}
    n = 0

    def bad(key, detail):
        vio.setdefault(key, []).append(dict(key=key, clause=key.split('/')[0], replay=dict(part='enc', job=list(j)), detail=detail))
    for p in range(1, 101):
        for soc in (range(0, 101) if kind == 'v2' else (100,)):
            for op in ('charge', 'discharge'):
                if op == 'discharge' and soc not in (0, 100):
                    continue
                s = gs.EcoModeV1("eco_mode_1", 0, "") if kind == 'v1' else gs.EcoModeV2("eco_mode_1", 0, "")
                if kind == 'v2':
                    s.schedule_type = ST(start_type)
                    s.set_schedule_type(ST.ECO_MODE, is745)
                try:
                    b = s.encode_charge(p, soc) if op == 'charge' else s.encode_discharge(p)
                except BaseException as e:  # noqa: BLE001
                    bad(f'encodes/{kind}/{type(e).__name__}', dict(power=p, soc=soc, op=op, error=str(e)))
                    continue
                n += 1
                ref = refdec.decode_eco_v1(b) if kind == 'v1' else refdec.decode_schedule(b) if len(b) == 12 else refdec.NOVALUE
                if len(b) != (8 if kind == 'v1' else 12) or ref is refdec.NOVALUE:
                    bad(f'group-decodes/{kind}', dict(power=p, soc=soc, op=op, bytes=b.hex()))
                    continue
                if classify_group(ref, kind == 'v2') != op:
                    bad(f'group-is-24/7-{op}/{kind}', dict(power=p, soc=soc, bytes=b.hex(), reference=str(ref)))
                got_p = ref['power'] if kind == 'v1' else refdec.power_percent(ref['schedule_type'], ref['power'])
                want_p = -p if op == 'charge' else p
                if got_p != want_p:
                    bad(f'group-power/{kind}/type{ref.get("schedule_type", 0)}', dict(power=p, op=op, decoded=got_p, bytes=b.hex()))
                if kind == 'v2' and op == 'charge' and ref['soc'] != soc:
                    bad(f'group-soc/{kind}', dict(soc=soc, decoded=ref['soc'], bytes=b.hex()))
                # the library's own reading of what it encoded
                rd = gs.EcoModeV1("x", 0, "") if kind == 'v1' else gs.EcoModeV2("x", 0, "")
                try:
                    obj = rd.read_value(world.gp.ProtocolResponse(b, None))
                    flags = (obj.is_eco_charge_mode(), obj.is_eco_discharge_mode())
                    if flags != ((op == 'charge'), (op == 'discharge')):
                        bad(f'is_eco_{op}_mode/{kind}', dict(power=p, soc=soc, flags=flags, bytes=b.hex()))
                    if obj.get_power() != want_p:
                        bad(f'get_power/{kind}', dict(power=p, got=obj.get_power(), bytes=b.hex()))
                except ValueError as e:
                    bad(f'reads-own-encoding/{kind}', dict(power=p, soc=soc, op=op, bytes=b.hex(), error=str(e)))
    res = []
    for key, lst in vio.items():
        lst[0]['n'] = len(lst)
        res.append(lst[0])
    return n, res


# ------------------------------------------------------------------ end to end

PRIORS_V1 = {'off': ECO_V1_BASE[0], 'charge': ECO_V1_BASE[1], 'discharge': ECO_V1_BASE[2], 'interval': ECO_V1_BASE[3],
             'undecodable': bytes([99] * 8)}
PRIORS_V2 = {'off': SCHED_BASE[0], 'charge': SCHED_BASE[1], 'peak-typed': SCHED_BASE[2], 'not-set': SCHED_BASE[3],
             '745-charge': SCHED_BASE[4], 'dry-contact-typed': bytes.fromhex('0000173bfe7f003200640000'),
             'backup-typed': bytes.fromhex('08000900fb7f000a00640000'), 'discharge': bytes.fromhex('0000173bff7f003c00640000'),
             'undecodable': bytes([99] * 12)}
GRID = [(1, 0), (1, 100), (9, 50), (10, 100), (55, 50), (100, 0), (100, 100)]


def e2e_configs():
    yield dict(name='ET-v1', family='ET', tag='ETU', power=10000, refused=('eco_v2', 'peak_shaving'), battery_mode=2, v2=False)
    yield dict(name='ET-v2', family='ET', tag='ETU', power=10000, refused=(), battery_mode=2, v2=True)
    yield dict(name='ET-v2-no-peak', family='ET', tag='ETU', power=10000, refused=('peak_shaving',), battery_mode=2, v2=True)
    yield dict(name='ET-745', family='ET', tag='ETT', power=10000, refused=(), battery_mode=2, v2=True)
    yield dict(name='ES-arm6', family='ES', tag='ESU', power=5000, refused=(), battery_mode=0, firmware=b'14146', v2=False)
    yield dict(name='ES-arm14', family='ES', tag='ESU', power=5000, refused=(), battery_mode=0, firmware=b'1414E', v2=False)
    yield dict(name='ES-v2', family='ES', tag='ESU', power=5000, refused=(), battery_mode=0, firmware=b'2222E', v2=True)


def group_addr(cfg, k=1):
    if cfg['v2']:
        return 47547 + 6 * (k - 1), 6
    return (47515 if cfg['family'] == 'ET' else 1793) + 4 * (k - 1), 4


def run_modes(cfg, prior_name, seq, poller=None):
    """seq: list of (mode, power, soc).  Returns violations.
    poller: while the setter runs, another task on the same object ('same') or on a second object of the family ('other')
    keeps issuing monitoring calls that read the eco-mode groups."""
    r = make_rig(cfg, fill=lambda a: 0)
    dev, inv = r.dev, r.inv
    pri = (PRIORS_V2 if cfg['v2'] else PRIORS_V1)[prior_name]
    a1, n1 = group_addr(cfg, 1)
    dev.rf.setbytes(a1, pri)
    if poller and poller.startswith('runtime-state:'):
        # what the inverter is DOING (runtime work-mode sensor 35187 on ET; its codes differ from the work-mode SETTING's)
        # has no say in what the setters write
        if cfg['family'] == 'ET':
            dev.rf.set(35187, int(poller.split(':')[1]))
            dev.rf.set(35185, int(poller.split(':')[1]))
        poller = None
    others = None
    if poller and poller.startswith('others:'):
        # groups 2..4 hold ENABLED schedules of another kind (peak shaving, dry contact, 745 ...): their on/off byte is not
        # the plain -1
        others = (PRIORS_V2 if cfg['v2'] else PRIORS_V1).get(poller.split(':', 1)[1])
        poller = None
    for k in (2, 3, 4):
        ak, nk = group_addr(cfg, k)
        dev.rf.setbytes(ak, others if others is not None else (SCHED_BASE[1] if cfg['v2'] else ECO_V1_BASE[1]))    # enabled groups to be switched off
    if poller and poller.startswith('redetect:'):
        # the model was detected before, when the inverter did not answer the probe of the 12-byte groups (refused it /
        # stayed silent); it is detected again now and answers
        how = poller.split(':')[1]
        poller = None
        if cfg['family'] == 'ET':
            if how == 'probe-refused-first':
                keep_ref = list(dev.refused)
                dev.refused = keep_ref + [(47547, 47552)]
                r.call(inv.read_device_info)
                dev.refused = keep_ref
            else:
                dev.drop_at = {len(dev.log) + k for k in range(1, 12)}     # everything after the first answer is lost
                r.call(inv.read_device_info)
                dev.drop_at = set()
    if r.call(inv.read_device_info)[0] != 'ok':
        return [('device-info', '')], 0
    modes = r.call(inv.get_operation_modes, True)[1]
    vio = []
    n = 0
    if poller == 'getter-first':
        # the application looks at the mode before changing it: the inverter is in ECO work mode with the prior group 1
        # (whatever the getter makes of that content - it may raise - must not outlive the setter)
        poller = None
        if cfg['family'] == 'ET':
            dev.rf.set(47000, 3)
        else:
            dev.settings[66:68] = bytes([0, 3])
        r.call(inv.get_operation_mode)
        r.call(inv.get_operation_mode)
    if poller and poller.startswith('seen-off:'):
        # groups 2..4 were OFF when this object (or another object of the family, own inverter) last looked at them -
        # by reading each group or all settings - and somebody else (the vendor's app) enabled them since
        _, who, how = poller.split(':')
        poller = None
        off = SCHED_BASE[0] if cfg['v2'] else ECO_V1_BASE[0]
        rr = r
        if who == 'other':
            from ..configs import make_rig as _mk4
            rr = _mk4(dict(cfg), fill=lambda a: 0, keep_world=True)
            rr.call(rr.inv.read_device_info)
        for k in (2, 3, 4):
            ak, nk = group_addr(cfg, k)
            rr.dev.rf.setbytes(ak, off)
        if how == 'groups':
            for k in (2, 3, 4):
                rr.call(rr.inv.read_setting, f'eco_mode_{k}')
        else:
            rr.call(rr.inv.read_settings_data)
        for k in (2, 3, 4):
            ak, nk = group_addr(cfg, k)
            dev.rf.setbytes(ak, SCHED_BASE[1] if cfg['v2'] else ECO_V1_BASE[1])
    between = None
    if poller and poller.startswith('other-between:'):
        # another inverter object of the family (own inverter, group 1 of ITS inverter holds another kind of schedule) reads
        # its group between this object's setter and getter
        from ..configs import make_rig as _mk2
        r3 = _mk2(dict(cfg), fill=lambda a: 0, keep_world=True)
        pri3 = (PRIORS_V2 if cfg['v2'] else PRIORS_V1).get(poller.split(':', 1)[1])
        poller = None
        if pri3 is not None:
            r3.dev.rf.setbytes(a1, pri3)
            if cfg['family'] == 'ET':
                r3.dev.rf.set(47000, 3)
            else:
                r3.dev.settings[66:68] = bytes([0, 3])
            r3.call(r3.inv.read_device_info)
            between = r3
    for (m, p, soc) in seq:
        if m == 'FOREIGN':
            # somebody else (the vendor's app, another client) changed the mode meanwhile: another work mode, group 1 off
            cur = dev.rf.get(47000) if cfg['family'] == 'ET' else dev.settings[67]
            other = 0 if cur != 0 else 1
            if cfg['family'] == 'ET':
                dev.rf.set(47000, other)
            else:
                dev.settings[66:68] = bytes([0, other])
            dev.rf.setbytes(a1, SCHED_BASE[0] if cfg['v2'] else ECO_V1_BASE[0])
            continue
        if m not in modes:
            continue
        if poller:
            import asyncio
            if poller == 'other' and 'r2' not in locals():
                from ..configs import make_rig as _mk
                r2 = _mk(dict(cfg), fill=lambda a: 0, keep_world=True)
                # the second inverter's group 1 holds a schedule of another type (peak shaving)
                pri2 = (PRIORS_V2 if cfg['v2'] else PRIORS_V1).get('peak-typed') or list((PRIORS_V2 if cfg['v2'] else PRIORS_V1).values())[0]
                r2.dev.rf.setbytes(a1, pri2)
                r2.call(r2.inv.read_device_info)
            target = inv if poller.startswith('same') else r2.inv

            pos = int(poller.split('@')[1]) if '@' in poller else None
            l0_ = len(dev.log)

            async def both():
                async def poll():
                    if pos is not None:
                        # ONE interfering read, issued when the inverter has seen `pos` requests of the setter: enumerating
                        # pos enumerates every place of the setter's request sequence the read can fall into
                        guard = 0
                        while len(dev.log) - l0_ < pos and guard < 400:
                            guard += 1
                            await asyncio.sleep(0.0004)
                        try:
                            await target.read_setting('eco_mode_1')
                        except Exception:  # noqa: BLE001
                            pass
                        return
                    for _ in range(6):
                        for call in (lambda: target.read_setting('eco_mode_1'), target.get_operation_mode):
                            try:
                                await call()
                            except Exception:  # noqa: BLE001
                                pass
                if poller.startswith('same'):
                    out = await asyncio.gather(inv.set_operation_mode(m, p, soc), poll(), return_exceptions=True)
                    if isinstance(out[0], BaseException):
                        raise out[0]
                    return out[0]
                return await inv.set_operation_mode(m, p, soc)
            if poller == 'other':
                # two loops cannot run at once in this harness: the other object polls right before the setter continues;
                # the shared definitions are what carries state from one to the other
                r2.call(target.read_setting, 'eco_mode_1')
            res = r.call(both)
        else:
            res = r.call(inv.set_operation_mode, m, p, soc)
        n += 1
        if res[0] != 'ok':
            continue   # "after set_operation_mode succeeds": otherwise nothing to check
        if between is not None:
            between.call(between.inv.read_setting, 'eco_mode_1')
            between.call(between.inv.get_operation_mode)
        got = r.call(inv.get_operation_mode)
        g1 = dev.rf.getbytes(a1, n1)
        ref = refdec.decode_schedule(g1) if cfg['v2'] else refdec.decode_eco_v1(g1)
        cls = classify_group(ref, cfg['v2'])
        if m == OM.ECO:
            want = ({'charge': OM.ECO_CHARGE, 'discharge': OM.ECO_DISCHARGE}.get(cls, OM.ECO),)
            if ref is refdec.NOVALUE:
                want = None    # undecodable stored group: the getter cannot classify, anything but a wrong mode is accepted
            elif cfg['v2'] and is_247(ref) and ref['on_off'] < 0 and ref['schedule_type'] not in (0, 6) and ref['power']:
                # an enabled 24/7 group of a non-eco schedule type: whether the inverter treats it as an eco group
                # is not documented - both readings of the getter are accepted
                want = (OM.ECO, OM.ECO_CHARGE if ref['power'] < 0 else OM.ECO_DISCHARGE)
        else:
            want = (m,)
        if want is not None and (got[0] != 'ok' or got[1] not in want):
            vio.append((f'getter-returns-mode/{m.name}', f'prior {prior_name}: set {m.name}({p},{soc}) then get -> {str(got)[:60]}'))
        if m in (OM.ECO_CHARGE, OM.ECO_DISCHARGE):
            op = 'charge' if m == OM.ECO_CHARGE else 'discharge'
            if cls != op:
                vio.append((f'group1-is-24/7-{op}', f'prior {prior_name}: group 1 = {g1.hex()}'))
            else:
                gp_ = ref['power'] if not cfg['v2'] else refdec.power_percent(ref['schedule_type'], ref['power'])
                if gp_ != (-p if op == 'charge' else p):
                    vio.append((f'group1-power/{op}', f'prior {prior_name}: requested {p} %, group 1 decodes to {gp_} ({g1.hex()})'))
                if cfg['v2'] and op == 'charge' and ref['soc'] != soc:
                    vio.append(('group1-soc', f'prior {prior_name}: requested SoC {soc}, group 1 has {ref["soc"]}'))
            for k in (2, 3, 4):
                ak, nk = group_addr(cfg, k)
                gk = dev.rf.getbytes(ak, nk)
                on = refdec.s(gk[4:5]) < 0 if cfg['v2'] else gk[6] != 0
                if on:
                    vio.append(('other-groups-off', f'group {k} still enabled: {gk.hex()}'))
    if dev.bad:
        vio.append(('requests-parse', f'{dev.bad[0][1]}: {dev.bad[0][0].hex()}'))
    return vio, n


def job_e2e(j):
    cfg, prior_name = j[:2]
    poller = j[2] if len(j) > 2 else None
    out = {}
    n = 0
    modes = list(OM)
    seqs = []
    for m in modes:
        for (p, soc) in (GRID if m in (OM.ECO_CHARGE, OM.ECO_DISCHARGE) else [(100, 100)]):
            seqs.append([(m, p, soc)])
    for m1, m2 in itertools.product(modes, repeat=2):   # non-initial starts
        seqs.append([(m1, 30, 60), (m2, 55, 50)])
    for m in modes:                                     # the same request again after somebody else changed the mode
        seqs.append([(m, 30, 60), ('FOREIGN', 0, 0), (m, 30, 60)])
    for seq in seqs:
        if prior_name == 'undecodable' and seq[0][0] not in (OM.ECO_CHARGE, OM.ECO_DISCHARGE):
            continue
        if poller and poller.startswith('runtime-state:') and not (len(seq) == 1 and seq[0][1:] in ((55, 50), (100, 100))):
            continue
        if poller and poller.startswith('others:') and not (len(seq) == 1 and seq[0][0] in (OM.ECO_CHARGE, OM.ECO_DISCHARGE) and seq[0][1:] in ((55, 50), (100, 100))):
            continue
        if poller and poller.startswith('redetect:') and not (len(seq) == 1 and seq[0][0] in (OM.ECO_CHARGE, OM.ECO_DISCHARGE)):
            continue
        if poller and poller.startswith('seen-off:') and not (seq[0][0] in (OM.ECO_CHARGE, OM.ECO_DISCHARGE) and (len(seq) == 1 and seq[0][1:] in ((55, 50), (100, 100)) or len(seq) == 3)):
            continue
        if poller and poller.startswith('other-between') and not (len(seq) == 1 and seq[0][0] in (OM.ECO_CHARGE, OM.ECO_DISCHARGE)):
            continue
        if poller and poller != 'getter-first' and not poller.startswith('other-between') and not poller.startswith('others:') and not poller.startswith('seen-off:') and not poller.startswith('redetect:') and \
                not poller.startswith('runtime-state:') and not (len(seq) == 1 and seq[0][0] in (OM.ECO_CHARGE, OM.ECO_DISCHARGE) and seq[0][1:] in ((55, 50), (9, 50))):
            continue
        vio, k = run_modes(cfg, prior_name, seq, poller)
        n += k
        for key, cause in vio:
            kk = f"{key}/{cfg['name']}/prior:{prior_name}" + ('/after-a-getter-call' if poller == 'getter-first' else f"/another-object-reads-between:{poller.split(':', 1)[1]}" if poller and poller.startswith('other-between') else f"/groups-2-4-hold:{poller.split(':', 1)[1]}" if poller and poller.startswith('others:') else f"/groups-2-4-seen-off-before:{poller.split(':', 1)[1]}" if poller and poller.startswith('seen-off:') else f"/model-detected-twice:{poller.split(':', 1)[1]}" if poller and poller.startswith('redetect:') else f"/inverter-runtime-state:{poller.split(':', 1)[1]}" if poller and poller.startswith('runtime-state:') else f"/while-polling:{poller.split('@')[0]}" if poller else '')
            out.setdefault(kk, []).append(dict(key=kk, clause=key.split('/')[0],
                                               replay=dict(part='e2e', cfg=cfg, prior=prior_name, poller=poller,
                                                           seq=[[getattr(m, 'name', m), p, s] for m, p, s in seq]),
                                               detail=dict(cause=cause, sequence=[[getattr(m, 'name', m), p, s] for m, p, s in seq])))
    res = []
    for key, lst in out.items():
        lst.sort(key=lambda v: len(v['replay']['seq']))
        lst[0]['n'] = len(lst)
        res.append(lst[0])
    return n, res


def limits_job(cfg):
    r = make_rig(cfg, fill=lambda a: 0)
    inv = r.inv
    r.call(inv.read_device_info)
    vio = []
    n = 0
    xs = sorted(set(list(range(0, 65535, 100)) + [0, 1, 99, 101, 255, 256, 9999, 10000, 32767, 32768, 65534]))
    for x in xs:
        if cfg['family'] == 'DT' and cfg['tag'] == 'DTU' and x > 65534:
            continue
        a = r.call(inv.set_grid_export_limit, x)
        b = r.call(inv.get_grid_export_limit)
        n += 1
        if a[0] == 'ok' and (b[0] != 'ok' or b[1] != x):
            vio.append((f'export-limit-round-trip/{cfg["family"]}', f'set {x}, get -> {str(b)[:60]}'))
    if cfg['family'] in ('ET', 'ES'):
        for d in range(0, 101):
            a = r.call(inv.set_ongrid_battery_dod, d)
            b = r.call(inv.get_ongrid_battery_dod)
            n += 1
            if a[0] == 'ok' and (b[0] != 'ok' or b[1] != d):
                vio.append((f'dod-round-trip/{cfg["family"]}', f'set {d}, get -> {str(b)[:60]}'))
    out = {}
    for key, cause in vio:
        out.setdefault(key, []).append(dict(key=key, clause=key.split('/')[0], replay=dict(part='limits', cfg=cfg),
                                            detail=dict(cause=cause)))
    res = []
    for key, lst in out.items():
        lst[0]['n'] = len(lst)
        res.append(lst[0])
    return n, res


def fault_calls(cfg):
    """(name, setter call, getter call, expected getter value)"""
    out = []
    for m in OM:
        out.append((f'mode={m.name}', ('set_operation_mode', (m, 40, 70)), ('get_operation_mode', ()), m))
    out.append(('export=123', ('set_grid_export_limit', (123,)), ('get_grid_export_limit', ()), 123))
    if cfg['family'] != 'DT':
        out.append(('dod=37', ('set_ongrid_battery_dod', (37,)), ('get_ongrid_battery_dod', ()), 37))
    return out


def run_fault(cfg, call, k, code):
    """One setter on a configured object; request #k of the setter is answered with Modbus exception `code`.
    If the setter nevertheless reports success, the getter must return what was set."""
    name, (sname, sargs), (gname, gargs), want = call
    r = make_rig(cfg, fill=lambda a: 0)
    dev, inv = r.dev, r.inv
    if r.call(inv.read_device_info)[0] != 'ok':
        return None, 0
    if sname == 'set_operation_mode':
        modes = r.call(inv.get_operation_modes, True)
        if modes[0] != 'ok' or sargs[0] not in modes[1]:
            return None, 0
    l0 = len(dev.log)
    if k is not None:
        dev.reject_at = {l0 + k: code}
    res = r.call(getattr(inv, sname), *sargs)
    nreq = len(dev.log) - l0
    dev.reject_at = {}
    if res[0] != 'ok':
        return None, nreq      # the setter reported the failure: nothing is claimed
    got = r.call(getattr(inv, gname), *gargs)
    if got[0] != 'ok' or got[1] != want:
        rq = dev.log[l0 + k] if k is not None and l0 + k < len(dev.log) else None
        return (f'setter-succeeded-getter-differs/{sname}',
                f'{sname}{sargs} returned normally although request #{k} ({rq}) was answered with exception code {code}; '
                f'{gname}() -> {str(got)[:60]}'), nreq
    return None, nreq


def job_faults(cfg):
    out = {}
    n = 0
    for call in fault_calls(cfg):
        _, nreq = run_fault(cfg, call, None, 0)
        n += 1
        for k in range(nreq):
            for code in (1, 3, 4, 6):
                v, _ = run_fault(cfg, call, k, code)
                n += 1
                if v:
                    key = f"{v[0]}/{cfg['name']}"
                    out.setdefault(key, []).append(dict(key=key, clause='setter-succeeded-getter-differs',
                                                        replay=dict(part='fault', cfg=cfg, call=call[0], k=k, code=code),
                                                        detail=dict(cause=v[1], call=call[0], request_index=k, exception_code=code)))
    res = []
    for key, lst in out.items():
        lst[0]['n'] = len(lst)
        res.append(lst[0])
    return n, res


def sample_modes(name, prior, seq):
    cfg = [c for c in e2e_configs() if c['name'] == name][0]
    vio, n = run_modes(cfg, prior, seq)
    return dict(config=name, prior_group1=prior, sequence=[[getattr(m, 'name', m), p, s] for m, p, s in seq], mode_changes=n, violations=vio)


def run(tier, seed, rep):
    # histories of public API calls and device changes on one object, then probes of the API-level properties
    from .. import api_sessions
    _api = api_sessions.explore(tier, seed, {'C19'})
    rep.add_many([v for v in _api['violations'] if v['prop'] == 'C19'])
    ej = [('v1', 0, False)] + [('v2', t, is745) for t in (0, 1, 2, 3, 4, 5, 6, 85) for is745 in (False, True)]
    n_enc = 0
    for n, res in pmap(encoder_job, ej):
        n_enc += n
        rep.add_many(res)
    jobs = []
    for cfg in e2e_configs():
        for prior in (PRIORS_V2 if cfg['v2'] else PRIORS_V1):
            jobs.append((cfg, prior))
            jobs.append((cfg, prior, 'same'))
            jobs.append((cfg, prior, 'getter-first'))
            if prior == 'off':
                for other in (PRIORS_V2 if cfg['v2'] else PRIORS_V1):
                    jobs.append((cfg, prior, f'others:{other}'))
                if cfg['family'] == 'ET':
                    for w in range(0, 8):
                        jobs.append((cfg, prior, f'runtime-state:{w}'))
            if prior in ('off', 'charge') and cfg['family'] == 'ET' and cfg['v2']:
                jobs.append((cfg, prior, 'redetect:probe-refused-first'))
                jobs.append((cfg, prior, 'redetect:probe-lost-first'))
            if prior in ('off', 'charge', 'discharge'):
                for who in ('same', 'other'):
                    for how in ('groups', 'all-settings'):
                        jobs.append((cfg, prior, f'seen-off:{who}:{how}'))
            if prior in ('off', 'charge'):
                for other in (PRIORS_V2 if cfg['v2'] else PRIORS_V1):
                    jobs.append((cfg, prior, f'other-between:{other}'))
            for pos in range(0, 16):
                jobs.append((cfg, prior, f'same@{pos}'))
    n_e2e = 0
    for n, res in pmap(job_e2e, jobs):
        n_e2e += n
        rep.add_many(res)
    lim = [dict(family='ET', tag='ETU', power=10000, refused=(), battery_mode=2),
           dict(family='DT', tag='DTU', power=10000, refused=(), battery_mode=0),
           dict(family='DT', tag='DSN', power=3000, refused=(), battery_mode=0),
           dict(family='ES', tag='ESU', power=5000, refused=(), battery_mode=0)]
    n_lim = 0
    for n, res in pmap(limits_job, lim):
        n_lim += n
        rep.add_many(res)
    n_flt = 0
    fcfgs = [c for c in e2e_configs() if c['family'] == 'ET'] + \
            [dict(name='DT', family='DT', tag='DTU', power=10000, refused=(), battery_mode=0, v2=False)]
    for n, res in pmap(job_faults, fcfgs):
        n_flt += n
        rep.add_many(res)
    cov = dict(rejected_request_runs=n_flt, api_session_histories=_api['histories'], api_session_states=_api['states'],
               states=len(jobs) * 8, transitions=n_e2e, executions=n_enc + n_e2e + n_lim, traces_validated_against_impl=n_e2e + n_lim,
               encoder_evaluations=n_enc, mode_changes=n_e2e, limit_round_trips=n_lim, exhaustive=True,
               bound='encoder level: power 1..100 x SoC 0..100 x every schedule type the sensor can hold before normalisation x '
                     '745 flag, charge and discharge; end to end: ET {eco v1, v2, v2 without peak shaving, 745} and ES {arm 6, '
                     'arm 14 without v2, v2 firmware} x every prior content of eco group 1 (all schedule types, undecodable) x '
                     'every mode x (power, SoC) boundary grid, plus every ordered pair of modes (non-initial starts); export '
                     'limits 0..65534 step 100 + boundaries; DoD 0..100',
               state_definition='states = configuration x prior x mode cells; transitions = set_operation_mode calls',
               samples=[sample_modes('ES-v2', 'peak-typed', [(OM.ECO_CHARGE, 55, 50)]),
                        sample_modes('ET-745', 'not-set', [(OM.ECO_DISCHARGE, 9, 100), (OM.GENERAL, 100, 100)])])
    return dict(level='model_checking', coverage=cov,
                assumptions=['ECO and the emulated modes are one inverter work mode distinguished by eco group 1: for m = ECO '
                             'the expected getter result is the reference classification of the stored group 1',
                             'the 8-byte group has no SoC field; discharge takes no SoC',
                             'if set_operation_mode itself raises the obligation is vacuous ("after ... succeeds")',
                             'device model links: work-mode command 0359 -> settings offset 66, 0335 -> 52, register 0x560 -> 32'])


def replay(r):
    if r.get('part') == 'fault':
        cfg = r['cfg']
        cfg['refused'] = tuple(cfg['refused'])
        call = [c for c in fault_calls(cfg) if c[0] == r['call']][0]
        v, nreq = run_fault(cfg, call, r['k'], r['code'])
        return dict(requests_of_the_setter=nreq, violations=[v] if v else [])
    if r.get('part') == 'api-session':
        from .. import api_sessions
        out = api_sessions.replay(r)
        out['violations'] = [m for m in out['violations'] if m[0] == 'C19']
        return out
    if r['part'] == 'enc':
        n, res = encoder_job(tuple(r['job']))
        return dict(evaluations=n, violations=[v['key'] for v in res])
    cfg = r['cfg']
    cfg['refused'] = tuple(cfg['refused'])
    if isinstance(cfg.get('firmware'), dict):
        cfg['firmware'] = bytes.fromhex(cfg['firmware']['hex'])
    if r['part'] == 'limits':
        n, res = limits_job(cfg)
        return dict(violations=[v['key'] for v in res])
    seq = [(getattr(OM, m) if m != 'FOREIGN' else m, p, s) for m, p, s in r['seq']]
    vio, n = run_modes(cfg, r['prior'], seq, r.get('poller'))
    return dict(violations=vio)
