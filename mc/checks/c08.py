"""C08 - Modbus exception answers surface at once as RequestRejectedException(reason) (DESIGN 3, C08)."""
from __future__ import annotations

import struct

from .. import world, wire
from ..explore import Stats, pmap, h
from ..kernel import KLoop
from ..peer import PlanPeer, D0
from ..proto import make_protocol, _exec

gp = world.gp
TOL = 1e-9
KINDS = ('read', 'write', 'multi')
FN = dict(read=3, write=6, multi=16, read125=3)


def command(p, kind):
    if kind == 'read125':
        return p.read_command(35100, 125)
    if kind == 'read':
        return p.read_command(35100, 5)
    if kind == 'write':
        return p.write_command(47510, -5)
    return p.write_multi_command(47515, bytes(range(8)))


def exc_frame(framing, kind, code, req, unit=0xF7):
    if framing == 'tcp':
        return wire.tcp_exc_resp(req[:2], unit, FN[kind], code)
    return wire.rtu_exc_resp(unit, FN[kind], code)


def validator_part():
    """Engine E: every code x command x framing through the real validators."""
    vio = []
    n = 0
    reasons = set()
    for framing in ('rtu', 'tcp'):
        p = make_protocol('tcp' if framing == 'tcp' else 'udp', 1, 0, False)
        for kind in KINDS:
            cmd = command(p, kind)
            req = cmd.request_bytes()
            for code in range(256):
                for unit in (0xF7, 0x7F, 0x00):
                    f = exc_frame(framing, kind, code, req, unit)
                    n += 1
                    try:
                        r = cmd.validator(f)
                        got = ('returned', r)
                    except world.goodwe.exceptions.RequestRejectedException as e:
                        got = ('rejected', e.message)
                    except BaseException as e:  # noqa: BLE001
                        got = ('raised', type(e).__name__)
                    want = ('rejected', wire.exception_reason(code))
                    reasons.add(got)
                    if got != want:
                        cls = 'known-code' if code in wire.MODBUS_EXCEPTIONS else 'unknown-code'
                        vio.append(dict(key=f'validator:reason/{framing}/{kind}/{cls}', clause='validator:reason',
                                        replay=dict(part='E', framing=framing, kind=kind, code=code, unit=unit),
                                        detail=dict(got=got, want=want, frame=f.hex())))
    return n, len(reasons), vio


def run_k(cfg):
    """Engine K: exception frame answers transmission k+1 after k silent timeouts.  With cfg['head'] the inverter
    first delivers the head of a (long) valid read answer and only then the exception frame."""
    world.reset()
    T, R, k, kind, code = cfg['T'], cfg['R'], cfg['k'], cfg['kind'], cfg['code']
    framing = 'tcp' if cfg['transport'] == 'tcp' else 'rtu'
    head = cfg.get('head', 0)

    off = 1 if cfg.get('raw_prior') else 0
    stalled = []

    def plan(i, req, now):
        if off and i == 0:
            # the earlier raw request (same bytes, permissive validator) is answered by a conforming frame
            return [(D0, ('data', wire.tcp_read_resp(req[:2], 0xF7, bytes(10)) if framing == 'tcp' else wire.rtu_read_resp(0xF7, bytes(10))))]
        i -= off
        if cfg.get('stale_head') and i == k - 1:
            # the transmission before gets only the head of a (long) read answer - missing exactly as many bytes as an
            # exception frame has - and times out; the exception frame answers the NEXT transmission
            full = wire.tcp_read_resp(req[:2], 0xF7, bytes(250)) if framing == 'tcp' else wire.rtu_read_resp(0xF7, bytes(250))
            return [(D0, ('data', full[:len(full) - len(exc_frame(framing, kind, code, req))]))]
        if i == k:
            if head:
                full = wire.tcp_read_resp(req[:2], 0xF7, bytes(250)) if framing == 'tcp' else wire.rtu_read_resp(0xF7, bytes(250))
                return [(D0, ('data', full[:head])), (2 * D0, ('data', exc_frame(framing, kind, code, req)))]
            f = exc_frame(framing, kind, code, req)
            if cfg.get('stall'):
                # the embedding application blocks the event loop (a slow callback) from just after this transmission until
                # `stall` timeouts later: when the loop runs again the exception frame sits in the socket AND the request's
                # timer is due - the frame arrived in time and is what ends the request
                def block():
                    stalled.append(loop.kern.now + cfg['stall'] * T)
                    loop.kern.now = stalled[-1]
                loop.call_later(D0 / 2, block)
            if cfg.get('mbap') and framing == 'tcp':
                # GoodWe firmware fills the MBAP length field unreliably (the library ignores it on purpose for data answers)
                ln = {'zero': 0, 'echo6': 6, 'plus7': len(f) - 6 + 7, 'minus1': len(f) - 7}[cfg['mbap']]
                f = f[:4] + struct.pack('>H', ln) + f[6:]
            return [(D0, ('data', f))]
        return []
    peer = PlanPeer(plan)
    loop = KLoop(peer)
    p = make_protocol(cfg['transport'], T, R, cfg['ka'], host=cfg.get('host'))
    if off:
        # Inverter.send_command() style: the caller supplies the request bytes - here the very bytes of the typed command
        # that follows - and accepts whatever comes back
        loop.run(_exec(world.gp.ProtocolCommand(command(p, kind).request, lambda x: True), p))
    st, res = loop.run(_exec(command(p, kind), p))
    t1 = loop.time()
    if st == 'hang':
        res = ('hang', res)
    loop.settle(3 * T)  # any further transmission / stale timer would show here
    vio = []
    if off:
        class _P:       # (the transmissions of the typed request only)
            sent = peer.sent[off:]
        peer = _P
    if k > R:
        return vio, res, peer.sent, t1
    want = wire.exception_reason(code)
    if res[0] != 'exc' or res[1] != 'RequestRejectedException':
        vio.append(('rejected-exception', f'{res[:2]}'))
    elif res[2] != want:
        vio.append(('reason-text', f'{res[2]!r} instead of {want!r}'))
    if len(peer.sent) != k + 1:
        vio.append(('no-retransmission', f'{len(peer.sent)} transmissions, exception answered #{k + 1}'))
    if peer.sent and len(peer.sent) > k:
        arrival = peer.sent[k][0] + (2 * D0 if head else D0)
        if stalled:
            arrival = max(arrival, stalled[-1])
        if abs(t1 - arrival) > TOL:
            vio.append(('immediate', f'completed {t1 - arrival:.6f} after the exception frame arrived'))
    if any('Exception in callback' in c.get('message', '') for c in loop.unhandled):
        vio.append(('no-callback-exception', loop.unhandled[0].get('message')))
    return vio, res, peer.sent, t1


def job(cfgs):
    out = []
    oc = {}
    states = set()
    for cfg in cfgs:
        v, res, sent, t1 = run_k(cfg)
        o = (res[0], res[1] if res[0] == 'exc' else 'data', res[2] if res[0] == 'exc' else None, len(sent))
        oc[o] = oc.get(o, 0) + 1
        states.add(h((cfg['transport'], cfg['ka'], cfg['R'], cfg['k'], cfg['kind'], o)))
        for clause, cause in v:
            v2 = run_k(cfg)[0]
            cls = 'known-code' if cfg['code'] in wire.MODBUS_EXCEPTIONS else 'unknown-code'
            if cfg.get('head'):
                cls = 'after-fragment'
            if cfg.get('raw_prior'):
                cls += '/after-raw-command-with-the-same-bytes'
            if cfg.get('host'):
                cls += '/host-given-as-a-name'
            if cfg.get('stall'):
                cls += '/event-loop-blocked-past-the-timeout'
            if cfg.get('stale_head'):
                cls += '/after-an-attempt-that-got-a-fragment-only'
            if cfg.get('mbap'):
                cls += f"/unreliable-length-field:{cfg['mbap']}"
            if not any(c == clause for c, _ in v2):
                cls += '/order-dependent'
            out.append(dict(key=f"{clause}/{cfg['transport']}/ka={int(cfg['ka'])}/{cfg['kind']}/after-{min(cfg['k'], 1)}-timeouts/{cls}",
                            clause=clause, replay=dict(part='K', cfg=cfg), detail=dict(cause=cause, result=res[:3])))
    return len(cfgs), oc, out, states


# ------------------------------------------------------------------ non-initial states: after earlier requests

PRIOR = {'success': ['valid'], 'rejected': ['exc2'], 'rejected@.5T': ['exc@.5T'], 'rejected@.9T': ['exc@.9T'],
         'success@.5T': ['valid@.5T'], 'success-after-timeout': ['drop', 'valid'], 'fragments': ['frag2@.4T'],
         'rejected-late-twice': ['exc@1.2T', 'exc@1.2T'], 'success-late-twice': ['valid@1.2T', 'valid@1.2T'],
         'garbage-then-valid': ['garbage', 'valid']}


def run_hist(cfg):
    """cfg: transport, ka, T, R, prior (tuple of PRIOR names), k (timeouts before the exception), delay (fraction of T)"""
    from ..proto import Session
    T, R = cfg['T'], cfg['R']
    s = Session(dict(transport=cfg['transport'], ka=cfg['ka'], T=T, R=R, same_command=bool(cfg.get('same_command'))))
    for name in cfg['prior']:
        if name == 'NEWLOOP':
            s.newloop()         # the object is used again from a new event loop (successive asyncio.run() calls)
            continue
        sc = PRIOR[name]
        if cfg['transport'] == 'tcp' and name == 'garbage-then-valid':
            sc = ['garbage']
        s.request(sc)           # no drain: the next request follows at once, as ET.read_runtime_data() does
    letter = 'exc2' if cfg['delay'] == 0 else f"exc@{cfg['delay']}T"
    code = cfg.get('code', 3)   # 3: another code than the earlier requests were refused with; 2: the very same frame again
    s.peer.exc_code = code
    obs = s.request(['drop'] * cfg['k'] + [letter.replace('exc2', f'exc{code}')], settle=False)
    vio = []
    res = obs.result
    want = wire.exception_reason(code)
    if res[0] != 'exc' or res[1] != 'RequestRejectedException':
        vio.append(('rejected-exception', f'{res[:2]}'))
    elif res[2] != want:
        vio.append(('reason-text', f'{res[2]!r}'))
    if len(obs.txs) != cfg['k'] + 1:
        vio.append(('no-retransmission', f'{len(obs.txs)} transmissions, exception answered #{cfg["k"] + 1}'))
    elif obs.txs:
        arrival = obs.txs[cfg['k']][0] + (D0 if cfg['delay'] == 0 else cfg['delay'] * T)
        if abs(obs.t1 - arrival) > 1e-6:
            vio.append(('immediate', f'completed {obs.t1 - arrival:.6f} after the exception frame arrived'))
    return vio, res


def hist_configs(tier):
    import itertools
    names = list(PRIOR) + ['NEWLOOP']
    for tr in ('udp', 'tcp'):
        for ka in (False, True):
            for R in ((0, 2) if tier == 'thorough' else (2,)):
                for depth in (1, 2):
                    for prior in itertools.product(names, repeat=depth):
                        if tier != 'thorough' and depth == 2 and not (prior[0].startswith('rejected') or prior[1].startswith('rejected')
                                                                      or 'NEWLOOP' in prior):
                            continue
                        for k in ((0, 1) if R else (0,)):
                            for delay in (0, .4, .8):
                                yield dict(transport=tr, ka=ka, T=1, R=R, prior=prior, k=k, delay=delay)
                                if any(x.startswith('rejected') for x in prior):
                                    yield dict(transport=tr, ka=ka, T=1, R=R, prior=prior, k=k, delay=delay, code=2)
                                    if delay == 0:
                                        # ... and the requests re-use ONE command object (as the inverter classes do with their
                                        # block reads): refused with code 2 before, refused with another code / answered now
                                        yield dict(transport=tr, ka=ka, T=1, R=R, prior=prior, k=k, delay=delay, code=6, same_command=True)
                                        yield dict(transport=tr, ka=ka, T=1, R=R, prior=prior, k=k, delay=delay, code=3, same_command=True)


def job_hist(cfgs):
    out = {}
    n = 0
    for cfg in cfgs:
        vio, res = run_hist(cfg)
        n += 1
        for clause, cause in vio:
            key = f"{clause}/{cfg['transport']}/ka={int(cfg['ka'])}/after:{'+'.join(sorted(set(cfg['prior'])))}" + \
                ('/same-code-again' if cfg.get('code') == 2 else '') + ('/same-command-object' if cfg.get('same_command') else '')
            out.setdefault(key, []).append(dict(key=key, clause=clause, replay=dict(part='H', cfg=cfg),
                                                detail=dict(cause=cause, prior=list(cfg['prior']), k=cfg['k'], delay=cfg['delay'])))
    res = []
    for key, lst in out.items():
        lst.sort(key=lambda v: len(v['replay']['cfg']['prior']))
        lst[0]['n'] = len(lst)
        res.append(lst[0])
    return n, res


# ------------------------------------------------------------------ callers that depend on the exact text

def run_pair(cfg):
    """Two protocol objects in one process with overlapping requests: object A's request is answered by an exception
    frame after `delay`, object B transmits (and is answered) `b_at` after A.  A is rejected when its frame arrives,
    with one transmission and the right reason - whatever B does in between."""
    import asyncio
    from ..kernel import KLoop
    from ..peer import PlanPeer
    from ..proto import make_protocol, _exec
    world.reset()
    tr, T, R = cfg['transport'], 1, cfg['R']
    framing = 'tcp' if tr == 'tcp' else 'rtu'
    code = cfg['code']

    def plan(k, req, now):
        rq = wire.parse_request(req)
        if rq['reg'] == 100:       # object A: refused
            return [(cfg['delay'] * T, ('data', exc_frame(framing, 'read', code, req)))]
        pl = bytes(2 * rq['count'])
        f = wire.tcp_read_resp(req[:2], 0xF7, pl) if framing == 'tcp' else wire.rtu_read_resp(0xF7, pl)
        return [(D0, ('data', f))]
    peer = PlanPeer(plan)
    loop = KLoop(peer)
    pa, pb = make_protocol(tr, T, R, cfg['ka']), make_protocol(tr, T, R, cfg['ka'])
    out = {}

    async def a():
        t0 = loop.time()
        out['a'] = await _exec(pa.read_command(100, 3), pa)
        out['ta'] = loop.time() - t0

    async def b():
        await asyncio.sleep(cfg['b_at'] * T)
        for _ in range(cfg['b_requests']):
            out['b'] = await _exec(pb.read_command(200, 2), pb)

    async def both():
        await asyncio.gather(a(), b())
    st, _ = loop.run(both())
    vio = []
    ra = out.get('a')
    na = sum(1 for t, fd, d, _ in peer.sent if wire.parse_request(d)['reg'] == 100)
    if st == 'hang' or ra is None:
        return [('terminates', 'hang')]
    if ra[0] != 'exc' or ra[1] != 'RequestRejectedException' or ra[2] != wire.exception_reason(code):
        vio.append(('rejected-exception', f'object A: {ra[:3]}'))
    if na != 1:
        vio.append(('no-retransmission', f'object A: {na} transmissions'))
    elif abs(out['ta'] - cfg['delay'] * T) > 1e-6 and not (tr == 'tcp' and abs(out['ta'] - cfg['delay'] * T - 0.001) < 1e-6):
        vio.append(('immediate', f"object A completed {out['ta']:.6f} after its transmission, the frame arrived after {cfg['delay'] * T}"))
    return vio


def pair_configs():
    for tr in ('udp', 'tcp'):
        for ka in (False, True):
            for R in (0, 1):
                for delay in (0.5, 0.9):
                    for b_at in (0.0, 0.2, 0.45):
                        for nb in (1, 2):
                            for code in (2, 6):
                                yield dict(transport=tr, ka=ka, R=R, delay=delay, b_at=b_at, b_requests=nb, code=code)


def caller_part(rep):
    """ET / DT against a device refusing a block with code c: only code 2 (ILLEGAL DATA ADDRESS) may switch a
    capability off; any other code must surface as RequestRejectedException and leave the capability alone."""
    from ..configs import make_rig
    from ..devsim import ET_OPTIONAL, DT_OPTIONAL
    n = 0
    for code in (1, 2, 3, 4, 6, 10, 11, 0x55):
        for block, flag in (('battery', '_has_battery'), ('battery2', '_has_battery2'), ('mppt', '_has_mppt'),
                            ('meter_ext2', '_has_meter_extended2'), ('eco_v2', '_has_eco_mode_v2'),
                            ('peak_shaving', '_has_peak_shaving')):
            cfg = dict(family='ET', tag='ETU', power=25000, refused=(block,), battery_mode=2)
            r = make_rig(cfg)
            r.dev.refuse_code = code
            di = r.call(r.inv.read_device_info)
            before = getattr(r.inv, flag)
            res = r.call(r.inv.read_runtime_data)
            after = getattr(r.inv, flag)
            n += 1
            probe = block in ('eco_v2', 'peak_shaving')
            if code == 2:
                if after is not False:
                    rep.add(f'code2-switches-capability-off/ET/{block}', 'ILLEGAL DATA ADDRESS switches the block off',
                            dict(part='caller', block=block, code=code), dict(flag=flag, value=after, result=str(res)[:80]))
            else:
                if (after is False and before is not False) or (probe and before is False):
                    rep.add(f'only-code2-switches-capability-off/ET/{block}', 'another exception code switched a capability off',
                            dict(part='caller', block=block, code=code), dict(flag=flag, code=code))
                if not probe and not (res[0] == 'exc' and res[1] == 'RequestRejectedException'):
                    rep.add(f'other-codes-surface/ET/{block}', 'a rejection other than ILLEGAL DATA ADDRESS must reach the caller',
                            dict(part='caller', block=block, code=code), dict(result=str(res)[:80], code=code))
        # single sensor / setting reads
        cfg = dict(family='ET', tag='ETU', power=10000, refused=(), battery_mode=2)
        r = make_rig(cfg)
        r.call(r.inv.read_device_info)
        r.dev.refused = [(45356, 45356)]
        r.dev.refuse_code = code
        res = r.call(r.inv.read_setting, 'battery_discharge_depth')
        n += 1
        still = 'battery_discharge_depth' in r.inv._settings
        if code == 2 and not (res[0] == 'exc' and res[1] == 'ValueError' and not still):
            rep.add('code2-marks-setting-unsupported/ET', 'ILLEGAL DATA ADDRESS -> ValueError, setting dropped',
                    dict(part='caller', block='setting', code=code), dict(result=str(res)[:80], still_listed=still))
        if code != 2 and (not still or (res[0] == 'exc' and res[1] == 'ValueError')):
            rep.add('only-code2-marks-setting-unsupported/ET', 'another exception code dropped the setting',
                    dict(part='caller', block='setting', code=code), dict(result=str(res)[:80], still_listed=still))
    return n


def run(tier, seed, rep):
    # histories of several requests on one object under the full fault alphabet (mc/sessions.py)
    from .. import sessions
    _ses = sessions.explore_sessions(tier, seed, {'C08'}, light=True)
    rep.add_many([v for v in _ses.violations if v['prop'] == 'C08'])
    n_c = caller_part(rep)
    n_p = 0
    for cfg in pair_configs():
        n_p += 1
        for clause, cause in run_pair(cfg):
            rep.add(f"{clause}/{cfg['transport']}/ka={int(cfg['ka'])}/second-object-active", clause,
                    dict(part='pair', cfg=cfg), dict(cause=cause, **cfg))
    hc = list(hist_configs(tier))
    n_h = 0
    best = {}
    for n, res in pmap(job_hist, [hc[i::32] for i in range(32)]):
        n_h += n
        for v in res:
            k = v['key']
            if k not in best or len(v['replay']['cfg']['prior']) < len(best[k]['replay']['cfg']['prior']):
                v['n'] = v.get('n', 1) + (best[k]['n'] if k in best else 0)
                best[k] = v
    rep.add_many(list(best.values()))
    n_e, reasons, vio_e = validator_part()
    rep.add_many(vio_e)
    grid = [(1, 0), (1, 1), (1, 2), (1, 3), (2, 1), (0.5, 2)] if tier == 'thorough' else [(1, 0), (1, 2)]
    codes = list(range(256)) if tier == 'thorough' else list(range(0, 16)) + list(range(16, 256, 7)) + [0x55, 0x80, 0x83, 0xFF]
    cfgs = []
    for tr in ('udp', 'tcp'):
        for ka in (False, True):
            for (T, R) in grid:
                for k in range(R + 1):
                    for kind in KINDS:
                        for code in codes:
                            cfgs.append(dict(transport=tr, ka=ka, T=T, R=R, k=k, kind=kind, code=code))
    # the typed request follows a caller-supplied raw request with the very same bytes (and a permissive validator)
    for tr in ('udp', 'tcp'):
        for ka in (False, True):
            for kind in KINDS:
                for code in (1, 2, 3, 6, 11, 0x55):
                    for k in (0, 1):
                        cfgs.append(dict(transport=tr, ka=ka, T=1, R=1, k=k, kind=kind, code=code, raw_prior=True))
    # Modbus/TCP exception frames whose MBAP length field is not the number of bytes that follow
    for ka in (False, True):
        for kind in KINDS:
            for code in (1, 2, 3, 6, 0x55):
                for mode in ('zero', 'echo6', 'plus7', 'minus1'):
                    for k in (0, 1):
                        cfgs.append(dict(transport='tcp', ka=ka, T=1, R=1, k=k, kind=kind, code=code, mbap=mode))
    # the application configured the inverter's host as a name or a short spelling (answers come from the resolved address)
    for tr in ('udp', 'tcp'):
        for ka in (False, True):
            for kind in KINDS:
                for code in (1, 2, 3, 6, 11, 0x55):
                    for k in (0, 1):
                        for host in ('inverter.local', '10.0.2'):
                            cfgs.append(dict(transport=tr, ka=ka, T=1, R=1, k=k, kind=kind, code=code, host=host))
    # the attempt before received a fragment only (missing exactly an exception frame's length) and timed out
    for tr in ('udp', 'tcp'):
        for ka in (False, True):
            for code in (1, 2, 6, 0x55):
                for R in (1, 2):
                    for k in range(1, R + 1):
                        cfgs.append(dict(transport=tr, ka=ka, T=1, R=R, k=k, kind='read125', code=code, stale_head=True))
    # the event loop is blocked while the exception frame arrives, until after the request's timer is due
    for tr in ('udp', 'tcp'):
        for ka in (False, True):
            for kind in KINDS:
                for code in (1, 2, 6, 0x55):
                    for R in (0, 2):
                        for k in range(0, R + 1):
                            for stall in (1.0, 1.2, 2.5):
                                cfgs.append(dict(transport=tr, ka=ka, T=1, R=R, k=k, kind=kind, code=code, stall=stall))
    # a pending fragment of a read answer must not swallow the exception frame
    for tr in ('udp', 'tcp'):
        for ka in (False, True):
            for R in (0, 1):
                for k in range(R + 1):
                    for head in (9, 10, 20, 100, 200, 240):   # (not 250: a remainder of exactly the exception frame's length is inherently ambiguous)
                        cfgs.append(dict(transport=tr, ka=ka, T=1, R=R, k=k, kind='read125', code=2, head=head))
    r = seed % 7
    chunks = [cfgs[i::64] for i in range(64)]
    chunks = chunks[r:] + chunks[:r]
    total = 0
    ocs = {}
    states = set()
    for n, oc, out, sts in pmap(job, chunks):
        total += n
        states |= sts
        for kk, v in oc.items():
            ocs[kk] = ocs.get(kk, 0) + v
        rep.add_many(out)
    cov = dict(session_histories=_ses.executions, session_states=len(_ses.states), session_choice_points=_ses.choice_points,
               states=len(states), transitions=total, executions=total, traces_validated_against_impl=total,
               validator_evaluations=n_e, caller_cases=n_c, two_object_cases=n_p, history_cases=n_h, distinct_validator_outcomes=reasons,
               distinct_outcome_classes=len(ocs), exhaustive=True,
               bound=f'codes {"0..255" if tier == "thorough" else "0..12,0x55,0x80,0x83,0xFF"} x read/write/write-multi x '
                     f'UDP-RTU/TCP x keep-alive x (T,R) grid {grid} x exception answering transmission k+1 for every '
                     f'k in 0..R; validators: all 256 codes x 3 commands x 2 framings x 3 unit addresses',
               samples=[dict(cfg=cfgs[0]), dict(cfg=cfgs[len(cfgs) // 2]), dict(cfg=cfgs[-1])],
               outcome_classes={str(k): v for k, v in sorted(ocs.items(), key=str)[:30]})
    return dict(level='model_checking', coverage=cov,
                assumptions=['reason table written out from the Modbus application protocol specification',
                             'kernel model; completion time compared with the arrival time of the frame'])


def replay(r):
    if r.get('part') == 'session':
        from .. import sessions
        out = sessions.replay(r)
        out['violations'] = [m for m in out['violations'] if m[0] == 'C08']
        return out
    if r['part'] == 'pair':
        return dict(violations=run_pair(r['cfg']))
    if r['part'] == 'caller':
        from ..findings import Report
        rp = Report('C08')
        caller_part(rp)
        return dict(violations=sorted(k for k in rp.by_key if r['block'] in k or r['block'] == 'setting'))
    if r['part'] == 'H':
        cfg = r['cfg']
        cfg['prior'] = tuple(cfg['prior'])
        v, res = run_hist(cfg)
        return dict(result=res[:3], violations=v)
    if r['part'] == 'E':
        p = make_protocol('tcp' if r['framing'] == 'tcp' else 'udp', 1, 0, False)
        cmd = command(p, r['kind'])
        f = exc_frame(r['framing'], r['kind'], r['code'], cmd.request_bytes(), r['unit'])
        try:
            got = ('returned', cmd.validator(f))
        except BaseException as e:  # noqa: BLE001
            got = (type(e).__name__, getattr(e, 'message', None))
        want = wire.exception_reason(r['code'])
        return dict(frame=f.hex(), got=got, want=want,
                    violations=[] if got == ('RequestRejectedException', want) else [('validator:reason', got)])
    v, res, sent, t1 = run_k(r['cfg'])
    return dict(result=res[:3], tx=[t for t, _, _, _ in sent], done=t1, violations=v)
