"""C06 - concurrent callers are serialised and each gets the answer to its own request (DESIGN 3, C06)."""
from __future__ import annotations

import asyncio
import struct

from .. import world
from ..explore import Ctx, Stats, explore, fingerprint, pmap
from ..kernel import KLoop
from ..peer import ScriptPeer, tag_payload, EPS_FRAC, D0
from ..proto import HOST

LETTERS = ['valid', 'drop', 'valid@.6T', 'frag2@.4T']
PRIOR = {'none': None, 'exhausted': ['drop'] * 4, 'rejected@.5T': ['exc@.5T'], 'fragments': ['frag2@.4T'],
         'garbage': ['garbage', 'valid']}
TOL = 1e-9


def offsets(T):
    return [0.0, 0.3 * T, T, T + EPS_FRAC * T, 1.3 * T]


def expected(reg):
    return struct.unpack('>h', tag_payload(reg, 1))[0]


# callers asking for blocks of different length (their validators differ): a 1-, 2- and 4-register sensor
MIX = ('vpv1', 'ppv1', 'meter_e_total_exp1', 'vpv2')


def target(cfg, inv, i):
    """-> (sensor id to read, first register, expected value)"""
    if not cfg.get('mix'):
        return f'modbus-{1000 + i}', 1000 + i, expected(1000 + i)
    from .. import refdec
    s = [x for x in inv.sensors() if x.id_ == MIX[i]][0]
    n = refdec.size_of(s)
    return s.id_, s.offset, refdec.decode(s, tag_payload(s.offset, (n + 1) // 2)[:n])


def run_one(cfg, ctx, fp=True):
    world.reset()
    T, R, N = cfg['T'], cfg['R'], cfg['N']
    peer = (cfg.get('peer_cls') or ScriptPeer)(cfg['transport'], T, ctx, LETTERS)
    peer.watch = []
    loop = KLoop(peer, ctx=ctx)
    inv = world.goodwe.ET(HOST, 502 if cfg['transport'] == 'tcp' else 8899, 0, T, R)
    inv.set_keep_alive(cfg['ka'])
    if fp:
        ctx.fp = lambda: fingerprint(loop, (inv._protocol, inv))
    # non-initial state: an earlier request on the same object, the callers follow at once
    pri = PRIOR.get(cfg.get('prior', 'none'))
    if pri:
        peer.ctx = None
        peer.default_letter = 'valid'
        peer.forced = list(pri)

        async def first():
            try:
                await inv.read_sensor('modbus-999')
            except BaseException:  # noqa: BLE001
                pass
        loop.run(first())
        peer.forced = []
        peer.ctx = ctx
        del peer.sent[:]
    t_start = loop.time()
    offs = [0.0] + [ctx.choose(f'start{i}', offsets(T)) for i in range(1, N)]
    res = {}
    done = {}
    tg = [target(cfg, inv, i) for i in range(N)]

    async def caller(i):
        if offs[i]:
            await asyncio.sleep(offs[i])
        if i == 0 and cfg.get('chain'):
            # caller 0 is a polling loop: the SAME task has just made another request on the object (answered at once)
            try:
                await inv.read_sensor('modbus-998')
            except BaseException:  # noqa: BLE001
                pass
        try:
            if i == N - 1 and cfg.get('impatient'):
                # the last caller gives up after `impatient` timeouts (asyncio.wait_for): when it is still queued behind
                # another caller by then, that other caller's request is none of its business
                res[i] = ('ok', await asyncio.wait_for(inv.read_sensor(tg[i][0]), cfg['impatient'] * T))
            else:
                res[i] = ('ok', await inv.read_sensor(tg[i][0]))
        except BaseException as e:  # noqa: BLE001
            res[i] = ('exc', type(e).__name__)
        done[i] = loop.time()

    async def main():
        await asyncio.gather(*[caller(i) for i in range(N)])
    if cfg.get('chain'):
        peer.forced = ['valid']
    st, r = loop.run(main())
    loop.settle(0)
    ctx.fp = None
    extra = {}
    if cfg.get('second_round') and st != 'hang':
        # the object lives on: the same callers overlap again in the next asyncio.run() (all answers conforming)
        first = dict(res)
        res.clear()
        peer.ctx = None
        peer.default_letter = 'valid'
        offs = [0.0] * N
        loop.shutdown_like_asyncio_run()
        loop = KLoop(kern=loop.kern)
        st2, r2 = loop.run(main())
        loop.settle(0)
        extra['second_round'] = dict(res) if st2 != 'hang' else {'hang': str(r2)}
        res.clear()
        res.update(first)
        peer.ctx = ctx
    if cfg.get('peer_cls'):
        # (C10's overlapping-callers stage: transports and sockets during and after the calls, then close())
        import gc
        opened = lambda: sum(1 for t in loop.kern.transports if not t.is_closing())   # noqa: E731
        gc.collect(1)
        extra.update(watch=list(peer.watch), open_end=opened(), leaked=len(loop.kern.socks) - opened())

        async def closing():
            try:
                await inv._protocol.close()
            except Exception:  # noqa: BLE001 - judged through the transports that stay open
                pass
        loop.run(closing())
        loop.settle(0)
        gc.collect(1)
        extra.update(open_closed=opened(), leaked_closed=len(loop.kern.socks) - opened())
    return dict(extra, status=st, why=r if st == 'hang' else None, res=res, sent=list(peer.sent), offs=offs, done=done,
                regs=[t[1] for t in tg], expect=[t[2] for t in tg], prior=bool(pri),
                unhandled=[c.get('message', '') for c in loop.unhandled], t1=loop.time())


def _same(a, b):
    from .. import refdec
    try:
        return refdec.same(a, b)
    except Exception:  # noqa: BLE001
        return a == b


def monitor(cfg, o):
    T = cfg['T']
    out = []
    if o['status'] == 'hang':
        out.append(('no-deadlock', str(o['why'])))
    # (a) mutual exclusion on the wire
    spans = []
    gave_up = None
    if cfg.get('impatient') and (o['res'].get(cfg['N'] - 1) or ('', ''))[1] in ('TimeoutError', 'CancelledError'):
        gave_up = (o['regs'][cfg['N'] - 1], o['done'].get(cfg['N'] - 1))      # its request is over when it gives up
    for (s, fd, d, letter) in o['sent']:
        done = {'valid': s + D0, 'drop': s + T, 'valid@.6T': s + .6 * T, 'frag2@.4T': s + .4 * T}[letter]
        if gave_up and gave_up[1] is not None and struct.unpack('>H', (d[8:10] if cfg['transport'] == 'tcp' else d[2:4]))[0] == gave_up[0]:
            done = min(done, gave_up[1])
        spans.append((s, min(done, s + T)))
    for k, (t, _, d, _) in enumerate(o['sent']):
        for j, (s, done) in enumerate(spans):
            if j != k and s <= t + TOL and t < done - TOL and j < k:
                rj = o['sent'][j][2]
                out.append(('one-request-on-the-wire', f'tx#{k} at {t:.6f} while tx#{j} (sent {s:.6f}) is outstanding until {done:.6f}'))
                break
        else:
            continue
        break
    # (b) own answer
    for i in range(cfg['N']):
        r = o['res'].get(i)
        if r is None:
            if o['status'] != 'hang':
                out.append(('caller-completes', f'caller {i}'))
            continue
        if r[0] == 'ok':
            if not _same(r[1], o['expect'][i]):
                who = [j for j in range(cfg['N']) if _same(o['expect'][j], r[1])]
                out.append(('own-answer', f'caller {i} got the answer of caller {who}'))
        elif r[1] != 'RequestFailedException' and not (cfg.get('impatient') and i == cfg['N'] - 1 and r[1] in ('TimeoutError', 'CancelledError')):
            out.append(('own-answer', f'caller {i} raised {r[1]}'))
    # (c) a request whose first transmission is answered in time (one conforming frame, or two fragments) is accepted
    # at once: no retransmission, own value (judged by C02 / C07; no earlier request that could have left anything)
    if not o['prior'] and o['status'] != 'hang':
        tcp = cfg['transport'] == 'tcp'
        for i in range(cfg['N']):
            mine = [(t, l) for t, _, d, l in o['sent'] if struct.unpack('>H', (d[8:10] if tcp else d[2:4]))[0] == o['regs'][i]]
            r = o['res'].get(i)
            if gave_up and i == cfg['N'] - 1:
                continue
            if mine and mine[0][1] in ('valid', 'valid@.6T', 'frag2@.4T') and r is not None:
                if len(mine) != 1 or r[0] != 'ok':
                    out.append(('answered-at-once:' + mine[0][1], f'caller {i}: {len(mine)} transmissions, outcome {r[:2]}'))
    if any('Exception in callback' in m or 'Fatal' in m for m in o['unhandled']):
        out.append(('no-callback-exception', o['unhandled'][0]))
    return out


def describe(cfg, ctx, o):
    return dict(cfg=cfg, offsets=[round(x, 6) for x in o['offs']],
                tx=[(round(t, 6), struct.unpack('>H', (d[8:10] if cfg['transport'] == 'tcp' else d[2:4]))[0], l)
                    for t, _, d, l in o['sent']], results={str(k): v for k, v in o['res'].items()})


def job(j):
    cfg, mode, bound, prefix = j
    st = Stats()
    vio = {}

    def run(ctx):
        return run_one(cfg, ctx)

    def on_exec(ctx, o):
        oc = tuple(sorted((v[0], v[1] if v[0] == 'exc' else 'own' if _same(v[1], o['expect'][k]) else 'other')
                          for k, v in o['res'].items())) + (o['status'],)
        st.note(ctx, oc)
        if len(st.samples) < 1 and sum(1 for c in ctx.choices if c) >= 2:
            st.samples.append(describe(cfg, ctx, o))
        for clause, cause in monitor(cfg, o):
            if clause.startswith('answered-at-once') and not cfg.get('judge_acceptance'):
                continue
            vio.setdefault(clause, []).append((ctx.choices, cause))
    depth = (cfg['N'] - 1) + cfg['N'] * (cfg['R'] + 1) + 2
    if mode == 'product':
        n, capped = explore(run, depth=depth, on_exec=on_exec, root_prefix=prefix)
    else:
        n, capped = explore(run, depth=depth, deviations=bound, on_exec=on_exec, root_prefix=prefix)
    out = []
    for clause, lst in vio.items():
        lst.sort(key=lambda x: (sum(1 for c in x[0] if c), len(x[0]), x[0]))
        choices, cause = lst[0]
        o2 = run_one(cfg, Ctx(choices), fp=False)
        letters = sorted({l for _, _, _, l in o2['sent']} - {'valid'})
        key = f"{clause}/{cfg['transport']}/ka={int(cfg['ka'])}/{'+'.join(letters) or 'no-faults'}" + ('/caller-0-polls-in-a-loop' if cfg.get('chain') else '') + ('/last-caller-gives-up-early' if cfg.get('impatient') else '') + \
            (f"/after:{cfg['prior']}" if cfg.get('prior', 'none') != 'none' else '')
        if not any(c == clause for c, _ in monitor(cfg, o2)):
            key = f"{clause}/{cfg['transport']}/ka={int(cfg['ka'])}/order-dependent"
            cause = f'{cause}; ' + 'failed during exploration but not on a fresh replay: the outcome depends on earlier executions in the same process (state outside the objects under test leaks between executions)'
        out.append(dict(key=key, clause=clause, n=len(lst), replay=dict(cfg=cfg, choices=choices),
                        detail=dict(cause=cause, **describe(cfg, None, o2))))
    st.violations = out
    st.capped = capped
    return st


def acceptance_stage(tier, seed, letters):
    """Used by C02 ('valid', 'valid@.6T') and C07 ('frag2@.4T'): two or three callers asking for blocks of different
    length on one object, start offsets x per-transmission letters exhaustively; a request answered in time by its
    first transmission is accepted without retransmission whatever the other callers are doing."""
    jobs = []
    for tr in ('udp', 'tcp'):
        for ka in (False, True):
            for R in (0, 1):
                jobs.append((dict(transport=tr, ka=ka, T=1, R=R, N=2, mix=True, judge_acceptance=True), 'product', None, ()))
            jobs.append((dict(transport=tr, ka=ka, T=1, R=1, N=3, mix=True, judge_acceptance=True), 'deviations',
                         4 if tier == 'thorough' else 3, ()))
    total = Stats()
    for st in pmap(job, jobs):
        total.merge(st)
    vio = [v for v in total.violations if v['clause'].startswith('answered-at-once') and v['clause'].split(':', 1)[1] in letters]
    for v in vio:
        v['replay'] = dict(part='overlap', **v['replay'])
    return total.executions, vio


def run(tier, seed, rep):
    jobs = []
    for tr in ('udp', 'tcp'):
        for ka in (False, True):
            for R in ((1, 2) if tier == 'thorough' else (1,)):
                cfg = dict(transport=tr, ka=ka, T=1, R=R, N=2)
                jobs.append((cfg, 'product', None, ()))
            if tier == 'thorough':
                for o1 in range(5):
                    for o2 in range(5):
                        jobs.append((dict(transport=tr, ka=ka, T=1, R=1, N=3), 'product', None, (o1, o2)))
                jobs.append((dict(transport=tr, ka=ka, T=1, R=1, N=4), 'deviations', 3, ()))
                jobs.append((dict(transport=tr, ka=ka, T=2, R=2, N=3), 'deviations', 4, ()))
            else:
                jobs.append((dict(transport=tr, ka=ka, T=1, R=1, N=3), 'deviations', 3, ()))
                jobs.append((dict(transport=tr, ka=ka, T=1, R=2, N=2), 'deviations', 4, ()))
    for tr in ('udp', 'tcp'):
        for ka in (False, True):
            for R in (0, 1):
                jobs.append((dict(transport=tr, ka=ka, T=1, R=R, N=2, mix=True), 'product', None, ()))
            jobs.append((dict(transport=tr, ka=ka, T=1, R=1, N=3, mix=True), 'deviations', 3, ()))
    for tr in ('udp', 'tcp'):
        for ka in (False, True):
            for prior in (('exhausted', 'rejected@.5T', 'fragments', 'garbage') if tier == 'thorough' else ('rejected@.5T', 'fragments')):
                jobs.append((dict(transport=tr, ka=ka, T=1, R=1, N=2, prior=prior), 'product' if tier == 'thorough' else 'deviations',
                             None if tier == 'thorough' else 3, ()))
    # (a caller that gives up while queued - cfg['impatient'] - is NOT explored: caller-side cancellation is outside the
    # property's fault alphabet and the unchanged tree does not keep the other caller undisturbed then, DESIGN 6 / 7.4)
    # caller 0 as a polling loop: its task made a request on the object right before (same task, no yield in between)
    for tr in ('udp', 'tcp'):
        for ka in (False, True):
            jobs.append((dict(transport=tr, ka=ka, T=1, R=1, N=2, chain=True), 'product', None, ()))
            jobs.append((dict(transport=tr, ka=ka, T=1, R=1, N=3, chain=True), 'deviations', 3, ()))
    k = seed % len(jobs)
    jobs = jobs[k:] + jobs[:k]
    total = Stats()
    per = {}
    for j, st in zip(jobs, pmap(job, jobs)):
        total.merge(st)
        kk = f"{j[0]['transport']}/ka={int(j[0]['ka'])}/N={j[0]['N']}/R={j[0]['R']}/{j[1]}{j[2] or ''}"
        per[kk] = per.get(kk, 0) + st.executions
    rep.add_many(total.violations)
    cov = dict(states=len(total.states), transitions=len(total.edges), executions=total.executions,
               traces_validated_against_impl=total.executions, choice_points=total.choice_points,
               distinct_outcome_classes=len(total.outcomes),
               outcome_classes={str(k): v for k, v in sorted(total.outcomes.items(), key=str)[:40]},
               exhaustive=not total.capped, per_config=per,
               alphabet=dict(per_transmission=LETTERS, start_offsets='0, 0.3T, T, T+eps, 1.3T (caller 0 at 0)'),
               bound='full product of start offsets x per-transmission letters for N=2 (and N=3 thorough); '
                     'deviation-bounded for larger N/R', samples=total.samples[:5])
    return dict(level='model_checking', coverage=cov,
                assumptions=['each transmission is answered at most once and before its own timeout (the '
                             "property's proviso)", 'CPython 3.12 selector loop semantics; kernel model'])


def replay(r):
    r['cfg'].pop('part', None)
    o = run_one(r['cfg'], Ctx(r['choices']), fp=False)
    return dict(describe(r['cfg'], None, o), status=o['status'], violations=monitor(r['cfg'], o))
