"""C17 - a written setting reads back as written and touches only its own registers (DESIGN 3, C17)."""
from __future__ import annotations

import datetime as dt
import struct

from .. import world, refdec
from ..configs import make_rig
from ..devsim import ET_OPTIONAL
from ..explore import pmap, h
from ..sensor_enum import ECO_V1_BASE, SCHED_BASE

B16U = (0, 1, 2, 9, 10, 99, 100, 255, 256, 999, 1000, 32767, 32768, 65534)
B16S = (-32768, -32767, -1001, -1000, -256, -255, -100, -57, -1, 0, 1, 57, 100, 255, 256, 1000, 32767)


def domain(s, full):
    """Encodable domain of a setting (values whose encoding is the type's 'no value' sentinel excluded)."""
    t = type(s).__name__
    if t == 'Integer':
        return list(range(65535)) if full else list(B16U)
    if t in ('Voltage', 'Current'):
        return [k / 10 for k in (range(65535) if full else B16U)]
    if t == 'CurrentS':
        return [k / 10 for k in (range(-32768, 32768) if full else B16S)]
    if t == 'IntegerS':
        return list(range(-32768, 32768)) if full else list(B16S)
    if t == 'Decimal':
        return [k / s.scale for k in (range(-32768, 32768) if full else B16S)]
    if t == 'Long':
        return [0, 1, 255, 256, 65535, 65536, 0x7FFFFFFF, 0x80000000, 0xFFFFFFFE, 1234567]
    if t in ('ByteH', 'ByteL'):
        return list(range(-128, 128))
    if t == 'Timestamp':
        out = []
        import calendar
        # (the year travels as one unsigned byte counted from 2000: every value of it when full, else its boundaries)
        for y in (range(2000, 2256) if full else (2000, 2024, 2099, 2100, 2127, 2128, 2200, 2255)):
            for (mo, d) in ((1, 1), (2, 29 if calendar.isleap(y) else 28), (12, 31)):
                for (hh, mi, ss) in ((0, 0, 0), (23, 59, 59), (12, 30, 15)):
                    out.append(dt.datetime(y, mo, d, hh, mi, ss))
        return out
    if t == 'EcoModeV1':
        out = list(ECO_V1_BASE)
        for p in (-100, -1, 0, 1, 100):
            for (sh, sm, eh, em) in ((0, 0, 23, 59), (23, 59, 0, 0), (48, 0, 48, 0)):
                for on in (0, 0xFF):
                    for days in (0, 1, 0x7F, 0xFF, 0x55):
                        out.append(bytes([sh, sm, eh, em]) + struct.pack('>h', p) + bytes([on, days]))
        return out
    if t in ('Schedule', 'EcoModeV2', 'PeakShavingMode'):
        out = list(SCHED_BASE)
        for st in (0, 1, 2, 3, 4, 5, 6):
            for on in (st, 255 - st):
                for p in ((-100, -1, 0, 100) if st == 0 else (-1000, 0, 1000) if st == 6 else (-32768, 250, 32767)):
                    for soc in (0, 50, 100):
                        for months in (0, 1, 0x0FFF, 0x0800):
                            out.append(bytes([0, 0, 23, 59, on, 0x7F]) + struct.pack('>hhh', p, soc, months))
        out.append(bytes([0xFF, 0xFF, 0xFF, 0xFF, 85, 0, 0, 0, 0, 0, 0, 0]))
        return out
    return None   # type defines no encoding (Calculated, Temp): outside the property


def priors(s, full):
    if type(s).__name__ in ('ByteH', 'ByteL'):
        return None
    return (0x0000, 0xFFFF, 0x1234)


def settings_configs():
    yield dict(name='ET-v2', family='ET', tag='ETU', power=10000, refused=(), battery_mode=2)
    yield dict(name='ET-v1', family='ET', tag='ETU', power=10000, refused=('eco_v2', 'peak_shaving'), battery_mode=2)
    yield dict(name='ET-745', family='ET', tag='ETT', power=10000, refused=(), battery_mode=2)
    yield dict(name='DT-3ph', family='DT', tag='DTU', power=10000, refused=(), battery_mode=0)
    yield dict(name='DT-1ph', family='DT', tag='DSN', power=3000, refused=(), battery_mode=0)
    yield dict(name='ES-aa55', family='ES', tag='ESU', power=5000, refused=(), battery_mode=0, firmware=b'1414E')
    yield dict(name='ES-v2', family='ES', tag='ESU', power=5000, refused=(), battery_mode=0, firmware=b'2222E')


def in_scope(cfg, s):
    if domain(s, False) is None:
        return False
    if cfg['family'] == 'ES':
        return s.offset > 1000     # register-addressed eco groups and switches
    return True


def reg_state(dev):
    return dict(dev.rf.regs)


def run_setting(cfg, sid, transport, full, seed):
    """All values of one setting on one rig; returns (n, violations, distinct encodings)."""
    r = make_rig(cfg, transport, fill=lambda a: ((a * 40503 + seed * 31 + 7) & 0xFFFF) % 60000)
    inv, dev = r.inv, r.dev
    if r.call(inv.read_device_info)[0] != 'ok':
        return 0, [('device-info', 'failed', None)], 0
    s = inv._settings.get(sid)
    if s is None or not in_scope(cfg, s):
        return 0, [], 0
    t = type(s).__name__
    nregs = (refdec.size_of(s) + 1) // 2 if t not in ('ByteH', 'ByteL') else 1
    vio = []
    n = 0
    encs = set()
    vals = domain(s, full)
    prs = [None]
    if t in ('ByteH', 'ByteL'):
        # factored: all priors for 3 values + all values for 3 priors
        combos = [(v, p) for v in (-128, -1, 0x27) for p in (range(65536) if full else range(0, 65536, 257))] + \
                 [(v, p) for v in vals for p in (0x0000, 0xFFFF, 0x1234)]
    else:
        combos = [(v, None) for v in vals]
    for v, prior in combos:
        if prior is not None:
            dev.rf.set(s.offset, prior)
        before = reg_state(dev)
        prior_bytes = dev.rf.getbytes(s.offset, nregs)
        w0 = len(dev.writes)
        l0 = len(dev.log)
        res = r.call(inv.write_setting, sid, v)
        n += 1
        vs = v.hex() if isinstance(v, bytes) else str(v)
        if res[0] != 'ok':
            vio.append((f'write-succeeds/{t}', f'write_setting({sid!r}, {vs}) -> {res[1:]}', vs))
            continue
        want = refdec.encode(s, v, prior_bytes)
        encs.add(want)
        writes = dev.writes[w0:]
        if len(writes) != 1:
            vio.append((f'exactly-one-write/{t}', f'{sid}={vs}: {len(writes)} write requests {writes[:3]}', vs))
            continue
        fn, start, data = writes[0]
        if start != s.offset or len(data) != 2 * nregs:
            vio.append((f'writes-own-registers/{t}', f'{sid}={vs}: wrote {len(data) // 2} registers at {start}, setting is '
                                                     f'{nregs} at {s.offset}', vs))
        fnok = (fn in (6, 'aa55-w1')) if nregs == 1 else (fn in (16, 'aa55-wm'))
        if not fnok:
            vio.append((f'write-function/{t}', f'{sid}={vs}: function {fn} for {nregs} register(s)', vs))
        if bytes(data) != want:
            cls = 'resolution' if t in ('Decimal', 'Voltage', 'Current', 'CurrentS') else 'encoding'
            vio.append((f'carries-the-encoding/{t}/{cls}', f'{sid}={vs}: sent {bytes(data).hex()}, encoding is {want.hex()}', vs))
        after = reg_state(dev)
        changed = {a for a in set(before) | set(after) if before.get(a, dev.rf.fill(a) & 0xFFFF) != after.get(a, dev.rf.fill(a) & 0xFFFF)}
        outside = [a for a in changed if not s.offset <= a < s.offset + nregs]
        if outside:
            vio.append((f'other-registers-unchanged/{t}', f'{sid}={vs}: registers {sorted(outside)[:4]} changed', vs))
        if t in ('ByteH', 'ByteL'):
            got = dev.rf.getbytes(s.offset, 1)
            keep = got[1:2] if t == 'ByteH' else got[0:1]
            pk = prior_bytes[1:2] if t == 'ByteH' else prior_bytes[0:1]
            if keep != pk:
                vio.append((f'other-half-kept/{t}', f'{sid}={vs} prior {prior_bytes.hex()}: register now {got.hex()}', vs))
        if any(q.get('fn') not in (3, 'read') for q in dev.log[l0:] if q is not None) and False:
            pass
        back = r.call(inv.read_setting, sid)
        if back[0] != 'ok':
            vio.append((f'reads-back/{t}', f'{sid}={vs}: read_setting -> {back[1:]}', vs))
            continue
        b = back[1]
        if isinstance(v, bytes):
            ref = refdec.decode(s, v)
            if ref is refdec.NOVALUE or not hasattr(b, 'start_h'):
                if ref is not refdec.NOVALUE:
                    vio.append((f'reads-back/{t}', f'{sid}: read back {b!r}', vs))
            else:
                bad = refdec.group_matches(b, ref)
                if bad:
                    vio.append((f'reads-back/{t}', f'{sid}={vs}: {"; ".join(bad)}', vs))
        elif not (refdec.same(b, v) or b == v):
            cls = 'resolution' if t in ('Decimal', 'Voltage', 'Current', 'CurrentS') else 'value'
            vio.append((f'reads-back/{t}/{cls}', f'{sid}: wrote {vs}, read back {b!r}', vs))
    # read-back after OTHER reads: the written value survives whatever the object reads in between (bulk settings read,
    # another setting, the runtime data), immediately and after an idle gap
    other = [o.id_ for o in inv.settings() if o.id_ != sid and not (o.offset < s.offset + nregs and s.offset < o.offset + 2)]
    for v, _ in combos[:2]:
        vs = v.hex() if isinstance(v, bytes) else str(v)
        for between in ('settings_data', 'other-setting', 'runtime', 'all+idle'):
            if r.call(inv.write_setting, sid, v)[0] != 'ok':
                continue
            if between in ('settings_data', 'all+idle'):
                r.call(inv.read_settings_data)
            if between in ('other-setting', 'all+idle') and other:
                r.call(inv.read_setting, other[0])
                r.call(inv.read_setting, other[-1])
            if between in ('runtime', 'all+idle'):
                r.call(inv.read_runtime_data)
            if between == 'all+idle':
                r.loop.settle(7.0)
            back = r.call(inv.read_setting, sid)
            n += 1
            ok = False
            if back[0] == 'ok':
                if isinstance(v, bytes):
                    ref = refdec.decode(s, v)
                    ok = ref is refdec.NOVALUE or (hasattr(back[1], 'start_h') and not refdec.group_matches(back[1], ref))
                else:
                    ok = refdec.same(back[1], v) or back[1] == v or t in ('Decimal', 'Voltage', 'Current', 'CurrentS')
            if not ok:
                vio.append((f'reads-back/{t}/after-other-reads', f'{sid}: wrote {vs}, read {between}, read back {str(back)[:60]}', vs))
    # repeated writes: the same value again after the registers were changed behind the library's back (device side)
    # and after an overlapping setting was written through the library - every write_setting() must reach the inverter
    others = [o for o in inv.settings() if o is not s and in_scope(cfg, o) and
              o.offset < s.offset + nregs and s.offset < o.offset + max(1, (refdec.size_of(o) + 1) // 2)]
    for v, _ in combos[:3]:
        vs = v.hex() if isinstance(v, bytes) else str(v)
        for how in ['device-side'] + [f'via:{o.id_}' for o in others[:2]]:
            r.call(inv.write_setting, sid, v)
            if how == 'device-side':
                cur = dev.rf.getbytes(s.offset, nregs)
                dev.rf.setbytes(s.offset, bytes(b ^ 0x5A for b in cur))
            else:
                o = [x for x in others if x.id_ == how[4:]][0]
                ov = domain(o, False)
                r.call(inv.write_setting, o.id_, ov[len(ov) // 2])
            prior_bytes = dev.rf.getbytes(s.offset, nregs)
            want = refdec.encode(s, v, prior_bytes)
            w0 = len(dev.writes)
            res = r.call(inv.write_setting, sid, v)
            n += 1
            if res[0] != 'ok':
                continue
            if len(dev.writes) - w0 != 1:
                vio.append((f'exactly-one-write/{t}/repeated-value', f'{sid}={vs} written again after the registers changed '
                                                                     f'({how}): {len(dev.writes) - w0} write requests', vs))
            elif dev.rf.getbytes(s.offset, nregs) != want:
                vio.append((f'carries-the-encoding/{t}/repeated-value', f'{sid}={vs} ({how}): registers {dev.rf.getbytes(s.offset, nregs).hex()}', vs))
    if dev.bad:
        vio.append(('requests-parse', f'{sid}: {dev.bad[0][1]} {dev.bad[0][0].hex()}', None))
    return n, vio, len(encs)


ENV_LATENCY = (0.001, 0.35, 0.6, 0.9)


def run_env(cfg, sid, transport, ka, latency, reject, seed):
    """One setting written and read back in a less friendly environment: keep-alive on/off, a slow inverter (several
    requests of one write_setting() together last longer than one timeout), or one request of the call answered with a
    Modbus exception.  Whenever write_setting() reports success: exactly one write reached the inverter, the registers
    hold the encoding and the setting reads back."""
    vio = []
    n = 0
    # ka 'newloop' / 'ka+newloop': a long-lived object used from successive asyncio.run() calls - every call of the
    # history (write, read-back, the repeated write) runs on a new event loop, the previous one shut down and closed
    kamode = ka
    newloop = isinstance(ka, str) and 'newloop' in ka
    ka = ka is True or (isinstance(ka, str) and ka.startswith('ka'))
    probe = make_rig(cfg, transport, fill=lambda a: 0)
    if probe.call(probe.inv.read_device_info)[0] != 'ok':
        return 0, []
    s0 = probe.inv._settings.get(sid)
    if s0 is None or not in_scope(cfg, s0):
        return 0, []
    vals = domain(s0, False)
    vals = [vals[0], vals[len(vals) // 2]]
    t = type(s0).__name__
    nregs = (refdec.size_of(s0) + 1) // 2 if t not in ('ByteH', 'ByteL') else 1
    for v in vals:
        # number of requests of the fault-free call (for the fault positions)
        ks = [None]
        if reject:
            l0 = len(probe.dev.log)
            probe.call(probe.inv.write_setting, sid, v)
            ks = list(range(len(probe.dev.log) - l0))
        for k in ks:
            r = make_rig(cfg, transport, fill=lambda a: ((a * 40503 + seed * 31 + 7) & 0xFFFF) % 60000, T=1, R=1, ka=ka)
            inv, dev = r.inv, r.dev
            dev.latency = latency
            if r.call(inv.read_device_info)[0] != 'ok':
                continue
            s = inv._settings.get(sid)
            prior_bytes = dev.rf.getbytes(s.offset, nregs)
            w0, l0 = len(dev.writes), len(dev.log)
            if k is not None:
                dev.reject_at = {l0 + k: reject}
            if newloop:
                r.newloop()
            res = r.call(inv.write_setting, sid, v)
            dev.reject_at = {}
            n += 1
            vs = v.hex() if isinstance(v, bytes) else str(v)
            env = f"ka={int(ka)},latency={latency}" + (',one-event-loop-per-call' if newloop else '') + (f',request#{k}->exception {reject}' if k is not None else '')
            if res[0] != 'ok':
                if k is None:
                    vio.append((f'write-succeeds/{t}/env', f'write_setting({sid!r}, {vs}) -> {res[1:]} ({env})', vs))
                continue
            want = refdec.encode(s, v, prior_bytes)
            writes = dev.writes[w0:]
            if len(writes) != 1:
                vio.append((f'exactly-one-write/{t}/env', f'{sid}={vs}: {len(writes)} write requests reached the inverter ({env})', vs))
            elif dev.rf.getbytes(s.offset, nregs) != want:
                vio.append((f'carries-the-encoding/{t}/env', f'{sid}={vs}: registers {dev.rf.getbytes(s.offset, nregs).hex()}, '
                                                             f'encoding {want.hex()} ({env})', vs))
            for when in (('at-once', 'after-read-back') if k is None else ('after-read-back',)):
                if when == 'after-read-back':
                    if newloop:
                        r.newloop()
                    back = r.call(inv.read_setting, sid)
                    if back[0] == 'ok' and not isinstance(v, bytes) and not (refdec.same(back[1], v) or back[1] == v) \
                            and t not in ('Decimal', 'Voltage', 'Current', 'CurrentS'):
                        vio.append((f'reads-back/{t}/env', f'{sid}: wrote {vs}, read back {back[1]!r} ({env})', vs))
                if k is not None:
                    continue
                # the identical call once more (an application re-applying its configuration): the inverter's answers are
                # byte-for-byte those of the first call; it is again exactly one write, and it succeeds
                prior2 = dev.rf.getbytes(s.offset, nregs)
                w1 = len(dev.writes)
                if newloop:
                    r.newloop()
                res2 = r.call(inv.write_setting, sid, v)
                n += 1
                if res2[0] != 'ok':
                    vio.append((f'write-succeeds/{t}/env/repeated', f'the second identical write_setting({sid!r}, {vs}) -> {res2[1:]} ({env}, {when})', vs))
                elif len(dev.writes) - w1 != 1:
                    vio.append((f'exactly-one-write/{t}/env/repeated', f'{sid}={vs} written a second time: {len(dev.writes) - w1} write requests '
                                                                       f'reached the inverter ({env}, {when})', vs))
                elif dev.rf.getbytes(s.offset, nregs) != refdec.encode(s, v, prior2):
                    vio.append((f'carries-the-encoding/{t}/env/repeated', f'{sid}={vs} written a second time: registers '
                                                                          f'{dev.rf.getbytes(s.offset, nregs).hex()} ({env}, {when})', vs))
    return n, vio


def job_two_objects(j):
    """Two inverter objects (own inverters) write at the same time, every interleaving of their answers up to two deviations
    from first-come order (C20's harness): each inverter receives exactly the write requests its object sends when it is
    alone - one write per write_setting()."""
    from . import c20
    from ..explore import explore
    kinds, ops, transport = j
    seqs = ((ops[0],), (ops[1],))
    solos = [c20.run_pair(kinds, seqs, None, solo=i, transport=transport)[0] for i in (0, 1)]
    vio = {}
    n = [0]

    def writes(reqs, tcp):
        # (hex strings; Modbus/TCP without the transaction id: protocol id, length, unit, function - RTU: unit, function)
        return sorted(r for r in reqs if (r[10:12] if tcp else r[2:4]) in ('06', '10'))

    def on_exec(ctx, res):
        obs, hang = res
        n[0] += 1
        if hang:
            return
        for i in (0, 1):
            a, s = obs[i]['requests'], solos[i][i]['requests']
            tcp = transport == 'tcp' or kinds[i].endswith('tcp')
            if writes(a, tcp) != writes(s, tcp):
                vio.setdefault(f'exactly-one-write/two-objects-at-once/{transport}', []).append(
                    (list(ctx.choices), f'object {i} ({kinds[i]}) {ops[i]}: write requests on the wire {len(writes(a, tcp))}, alone {len(writes(s, tcp))}'))
    explore(lambda ctx: c20.run_pair(kinds, seqs, ctx, transport=transport), deviations=2, depth=40, on_exec=on_exec)
    out = []
    for key, lst in vio.items():
        out.append(dict(key=key, clause='exactly-one-write', n=len(lst), replay=dict(part='two-objects', kinds=list(kinds), ops=list(ops), transport=transport),
                        detail=dict(cause=lst[0][1], interleaving=lst[0][0])))
    return n[0], out


def job_spike(j):
    """One request of write_setting() - or of the read-back that follows - is answered later than one timeout (a latency
    spike; the retransmission is answered at once, the late answer arrives while later requests are under way), for every
    request position: if write_setting() reports success the registers hold the encoding and the setting reads back."""
    cfg, sid, transport, ka, seed = j
    vio = []
    n = 0
    probe = make_rig(cfg, transport, fill=lambda a: 0)
    if probe.call(probe.inv.read_device_info)[0] != 'ok':
        return 0, []
    s0 = probe.inv._settings.get(sid)
    if s0 is None or not in_scope(cfg, s0):
        return 0, []
    t = type(s0).__name__
    nregs = (refdec.size_of(s0) + 1) // 2 if t not in ('ByteH', 'ByteL') else 1
    vals = domain(s0, False)
    v = vals[len(vals) // 2]
    vs = v.hex() if isinstance(v, bytes) else str(v)
    l0 = len(probe.dev.log)
    probe.call(probe.inv.write_setting, sid, v)
    probe.call(probe.inv.read_setting, sid)
    nreq = len(probe.dev.log) - l0
    for k in range(nreq):
        for late in (1.2, 1.7):
            r = make_rig(cfg, transport, fill=lambda a: ((a * 40503 + seed * 31 + 7) & 0xFFFF) % 60000, T=1, R=1, ka=ka)
            inv, dev = r.inv, r.dev
            if r.call(inv.read_device_info)[0] != 'ok':
                continue
            s = inv._settings.get(sid)
            prior_bytes = dev.rf.getbytes(s.offset, nregs)
            base = len(dev.log)
            dev.delay_fn = lambda d, rq, base=base, k=k, late=late: late if len(d.log) - 1 == base + k else 0.15     # (every answer takes a while: the late one lands inside a later request)
            res = r.call(inv.write_setting, sid, v)
            n += 1
            if res[0] != 'ok':
                continue
            back = r.call(inv.read_setting, sid)
            r.loop.settle(3)
            env = f'{transport}, ka={int(ka)}, request #{k + 1} answered after {late} timeouts'
            want = refdec.encode(s, v, prior_bytes)
            if dev.rf.getbytes(s.offset, nregs) != want:
                vio.append((f'carries-the-encoding/{t}/latency-spike', f'{sid}={vs}: registers {dev.rf.getbytes(s.offset, nregs).hex()}, encoding {want.hex()} ({env})', vs))
            elif back[0] == 'ok' and not isinstance(v, bytes) and not (refdec.same(back[1], v) or back[1] == v) and \
                    t not in ('Decimal', 'Voltage', 'Current', 'CurrentS'):
                vio.append((f'reads-back/{t}/latency-spike', f'{sid}: wrote {vs}, read back {back[1]!r} ({env})', vs))
    out = {}
    for key, cause, vs_ in vio:
        kk = f"{key}/{cfg['name']}"
        out.setdefault(kk, []).append(dict(key=kk, clause=key.split('/')[0], replay=dict(part='spike', cfg=cfg, sid=sid, transport=transport, ka=ka, seed=seed),
                                           detail=dict(cause=cause, setting=sid, value=vs_)))
    res = []
    for key, lst in out.items():
        lst[0]['n'] = len(lst)
        res.append(lst[0])
    return n, res


def job_clamping(j):
    """The inverter stores another value than the one sent (it clamps to its own limits) and its acknowledgement says
    so: write_setting() must not report success - whenever it does, the setting has to read back as written."""
    cfg, sid, transport, seed = j
    vio = []
    n = 0
    probe = make_rig(cfg, transport, fill=lambda a: 0)
    if probe.call(probe.inv.read_device_info)[0] != 'ok':
        return 0, []
    s0 = probe.inv._settings.get(sid)
    if s0 is None or not in_scope(cfg, s0) or refdec.size_of(s0) > 2:
        return 0, []
    t = type(s0).__name__
    for v in domain(s0, False):
        for how, fn in (('plus-10', lambda reg, val: val + 10), ('to-5', lambda reg, val: 5 if val != 5 else 6), ('to-0', lambda reg, val: 0 if val else 1)):
            r = make_rig(cfg, transport, fill=lambda a: ((a * 40503 + seed * 31 + 7) & 0xFFFF) % 60000, T=1, R=0)
            inv, dev = r.inv, r.dev
            if r.call(inv.read_device_info)[0] != 'ok':
                continue
            dev.stores_instead = fn
            res = r.call(inv.write_setting, sid, v)
            n += 1
            if res[0] != 'ok':
                continue                       # the failure was reported: nothing is claimed
            dev.stores_instead = None
            back = r.call(inv.read_setting, sid)
            if not (back[0] == 'ok' and (refdec.same(back[1], v) or back[1] == v)) and t not in ('Decimal', 'Voltage', 'Current', 'CurrentS'):
                vio.append((f'reads-back/{t}/inverter-stored-another-value', f'write_setting({sid!r}, {v}) returned normally although the '
                            f'acknowledgement echoed another value ({how}); read back {str(back)[:60]}', str(v)))
    out = {}
    for key, cause, vs in vio:
        kk = f"{key}/{cfg['name']}"
        out.setdefault(kk, []).append(dict(key=kk, clause=key.split('/')[0], replay=dict(part='clamping', cfg=cfg, sid=sid, transport=transport, seed=seed),
                                           detail=dict(cause=cause, setting=sid, value=vs)))
    res = []
    for key, lst in out.items():
        lst[0]['n'] = len(lst)
        res.append(lst[0])
    return n, res


def job_overlapping_writes(j):
    """Two write_setting() calls on one object at the same time (same setting: two values, or the same value twice; or a
    write next to a read of the same setting): every call that reports success stands for exactly one write request that
    reached the inverter, in some order; the registers end up holding the encoding of the write that arrived last."""
    import asyncio
    cfg, sid, transport, ka, seed = j
    vio = []
    n = 0
    probe = make_rig(cfg, transport, fill=lambda a: 0)
    if probe.call(probe.inv.read_device_info)[0] != 'ok':
        return 0, []
    s0 = probe.inv._settings.get(sid)
    if s0 is None or not in_scope(cfg, s0):
        return 0, []
    t = type(s0).__name__
    nregs = (refdec.size_of(s0) + 1) // 2 if t not in ('ByteH', 'ByteL') else 1
    vals = domain(s0, False)
    v1, v2 = vals[len(vals) // 2], vals[-1] if vals[-1] != vals[len(vals) // 2] else vals[0]
    for what, a, b in (('two-values', v1, v2), ('same-value-twice', v1, v1), ('write+read', v1, None),
                       ('two-values/first-datagram-lost', v1, v2), ('read+write/first-datagram-lost', None, v1), ('read+write/second-datagram-lost', None, v1)):
        r = make_rig(cfg, transport, fill=lambda a_: ((a_ * 40503 + seed * 31 + 7) & 0xFFFF) % 60000, T=1, R=1, ka=ka)
        inv, dev = r.inv, r.dev
        if r.call(inv.read_device_info)[0] != 'ok':
            continue
        s = inv._settings.get(sid)
        w0 = len(dev.writes)

        if what.endswith('-datagram-lost'):
            dev.drop_at = {len(dev.log) + (1 if 'second' in what else 0)}       # (the lost request is retransmitted: R = 1)

        async def both():
            return await asyncio.gather(inv.write_setting(sid, a) if a is not None else inv.read_setting(sid),
                                        inv.write_setting(sid, b) if b is not None else inv.read_setting(sid), return_exceptions=True)
        res = r.call(both)
        dev.drop_at = set()
        n += 1
        if res[0] != 'ok':
            vio.append((f'write-succeeds/{t}/overlapping/{what}', f'{sid}: {res[1:]}', what))
            continue
        ok_writes = sum(1 for x, val in zip(res[1], (a, b)) if not isinstance(x, BaseException) and val is not None)
        # (a read next to the write may find content it cannot interpret - ValueError is its documented answer, C11)
        failed = [type(x).__name__ for x, val in zip(res[1], (a, b)) if isinstance(x, BaseException) and not (val is None and isinstance(x, ValueError))]
        if failed:
            vio.append((f'write-succeeds/{t}/overlapping/{what}', f'{sid}: {failed} on a healthy inverter', what))
        ws = dev.writes[w0:]
        if len(ws) != ok_writes:
            vio.append((f'exactly-one-write/{t}/overlapping/{what}', f'{sid}: {ok_writes} successful write_setting() calls, {len(ws)} write requests '
                                                                     f'reached the inverter (ka={int(ka)}, {transport})', what))
        elif ws and t not in ('ByteH', 'ByteL'):
            prior = bytes(nregs * 2)
            allowed = {bytes(refdec.encode(s, x, prior)) for x in (a, b) if x is not None}
            if dev.rf.getbytes(s.offset, nregs) not in allowed:
                vio.append((f'carries-the-encoding/{t}/overlapping/{what}', f'{sid}: registers {dev.rf.getbytes(s.offset, nregs).hex()} after overlapping writes', what))
    out = {}
    for key, cause, what in vio:
        kk = f"{key}/{cfg['name']}"
        out.setdefault(kk, []).append(dict(key=kk, clause=key.split('/')[0], replay=dict(part='overlapping-writes', cfg=cfg, sid=sid, transport=transport, ka=ka, seed=seed),
                                           detail=dict(cause=cause, setting=sid, case=what)))
    res = []
    for key, lst in out.items():
        lst[0]['n'] = len(lst)
        res.append(lst[0])
    return n, res


def job_after_lost_tail(j):
    """The call before the write was a read whose answer arrived only as a head of k bytes on every attempt (the read
    failed), for EVERY k: the write that follows is one write, carries the encoding and reads back."""
    cfg, sid, ka, seed = j
    vio = []
    n = 0
    probe = make_rig(cfg, 'udp', fill=lambda a: 0)
    if probe.call(probe.inv.read_device_info)[0] != 'ok':
        return 0, []
    s0 = probe.inv._settings.get(sid)
    if s0 is None or not in_scope(cfg, s0):
        return 0, []
    t = type(s0).__name__
    nregs = (refdec.size_of(s0) + 1) // 2 if t not in ('ByteH', 'ByteL') else 1
    v = domain(s0, False)
    v = v[len(v) // 2]
    vs = v.hex() if isinstance(v, bytes) else str(v)
    for rid in ('work_mode', 'eco_mode_1', 'time', 'battery_discharge_depth'):
        rs = probe.inv._settings.get(rid)
        if rs is None:
            continue
        total = 2 + 3 + 2 * ((refdec.size_of(rs) + 1) // 2) + 2          # AA55 + unit, function, byte count + registers + CRC
        for k in range(1, total):
            r = make_rig(cfg, 'udp', fill=lambda a: ((a * 40503 + seed * 31 + 7) & 0xFFFF) % 60000, T=1, R=1, ka=ka)
            inv, dev = r.inv, r.dev
            if r.call(inv.read_device_info)[0] != 'ok':
                continue
            l0 = len(dev.log)
            dev.head_only_at = {l0: k, l0 + 1: k}
            r.call(inv.read_setting, rid)
            dev.head_only_at = {}
            s = inv._settings.get(sid)
            prior_bytes = dev.rf.getbytes(s.offset, nregs)
            w0 = len(dev.writes)
            res = r.call(inv.write_setting, sid, v)
            n += 1
            env = f'ka={int(ka)}, after read_setting({rid!r}) whose answer arrived only as its first {k} of {total} bytes'
            if res[0] != 'ok':
                vio.append((f'write-succeeds/{t}/after-lost-tail', f'write_setting({sid!r}, {vs}) -> {res[1:]} ({env})', vs))
                continue
            writes = dev.writes[w0:]
            if len(writes) != 1:
                vio.append((f'exactly-one-write/{t}/after-lost-tail', f'{sid}={vs}: {len(writes)} write requests reached the inverter ({env})', vs))
            elif dev.rf.getbytes(s.offset, nregs) != refdec.encode(s, v, prior_bytes):
                vio.append((f'carries-the-encoding/{t}/after-lost-tail', f'{sid}={vs}: registers {dev.rf.getbytes(s.offset, nregs).hex()} ({env})', vs))
    out = {}
    for key, cause, vs_ in vio:
        kk = f"{key}/{cfg['name']}"
        out.setdefault(kk, []).append(dict(key=kk, clause=key.split('/')[0], replay=dict(part='lost-tail', cfg=cfg, sid=sid, ka=ka, seed=seed),
                                           detail=dict(cause=cause, setting=sid, value=vs_)))
    res = []
    for key, lst in out.items():
        lst[0]['n'] = len(lst)
        res.append(lst[0])
    return n, res


def job_neighbour(j):
    """A setting written on an object reaches THAT model's registers also when another object of the same family but
    another model class was detected and used in the process meanwhile.  The definitions (type, address) valid for the
    object are taken before the neighbour exists."""
    cfg, seed = j
    from ..configs import configure_neighbour
    r = make_rig(cfg, 'udp', fill=lambda a: ((a * 40503 + seed * 31 + 7) & 0xFFFF) % 60000)
    inv, dev = r.inv, r.dev
    if r.call(inv.read_device_info)[0] != 'ok':
        return 0, []
    defs = {s.id_: (s, type(s).__name__, s.offset) for s in inv.settings() if in_scope(cfg, s)}
    configure_neighbour(cfg)
    vio = []
    n = 0
    seen_types = set()
    for sid, (s0, t, off) in defs.items():
        if t in seen_types and sid not in ('grid_export_limit', 'battery_discharge_depth', 'work_mode', 'eco_mode_1'):
            continue
        seen_types.add(t)
        cur = inv._settings.get(sid)
        if cur is None or (type(cur).__name__, cur.offset) != (t, off):
            vio.append((f'definition-changed-by-another-object/{t}', f'{sid}: {t}@{off} before, '
                        f'{type(cur).__name__ + "@" + str(cur.offset) if cur is not None else None} after another object was detected', sid))
        vals = domain(s0, False)
        v = vals[len(vals) // 2]
        nregs = (refdec.size_of(s0) + 1) // 2 if t not in ('ByteH', 'ByteL') else 1
        prior = dev.rf.getbytes(off, nregs)
        w0 = len(dev.writes)
        res = r.call(inv.write_setting, sid, v)
        n += 1
        vs = v.hex() if isinstance(v, bytes) else str(v)
        if res[0] != 'ok':
            vio.append((f'write-succeeds/{t}/with-neighbour', f'write_setting({sid!r}, {vs}) -> {res[1:]}', sid))
            continue
        want = refdec.encode(s0, v, prior)
        ws = dev.writes[w0:]
        if len(ws) != 1 or ws[0][1] != off or bytes(ws[0][2]) != want:
            vio.append((f'writes-own-registers/{t}/with-neighbour', f'{sid}={vs}: inverter saw {[(w[0], w[1], bytes(w[2]).hex()) for w in ws][:2]}, '
                                                                    f'expected one write of {want.hex()} at {off}', sid))
        back = r.call(inv.read_setting, sid)
        if not isinstance(v, bytes) and t not in ('Decimal', 'Voltage', 'Current', 'CurrentS') and \
                not (back[0] == 'ok' and (refdec.same(back[1], v) or back[1] == v)):
            vio.append((f'reads-back/{t}/with-neighbour', f'{sid}: wrote {vs}, read back {str(back)[:60]}', sid))
    out = {}
    for key, cause, sid in vio:
        kk = f"{key}/{cfg['name']}"
        out.setdefault(kk, []).append(dict(key=kk, clause=key.split('/')[0], replay=dict(part='neighbour', cfg=cfg, seed=seed),
                                           detail=dict(cause=cause, setting=sid)))
    res = []
    for key, lst in out.items():
        lst[0]['n'] = len(lst)
        res.append(lst[0])
    return n, res


def job_env(j):
    cfg, sid, transport, ka, latency, reject, seed = j
    n, vio = run_env(cfg, sid, transport, ka, latency, reject, seed)
    out = {}
    for key, cause, vs in vio:
        kk = f"{key}/{cfg['name']}"
        out.setdefault(kk, []).append(dict(key=kk, clause=key.split('/')[0],
                                           replay=dict(part='env', cfg=cfg, sid=sid, transport=transport, ka=ka,
                                                       latency=latency, reject=reject, seed=seed),
                                           detail=dict(cause=cause, setting=sid, value=vs)))
    res = []
    for key, lst in out.items():
        lst[0]['n'] = len(lst)
        res.append(lst[0])
    return n, res


def job(j):
    cfg, sid, transport, full, seed = j
    n, vio, ne = run_setting(cfg, sid, transport, full, seed)
    out = {}
    for key, cause, vs in vio:
        kk = f"{key}/{cfg['name']}" if cfg['family'] == 'ES' else f"{key}/{cfg['family']}"
        out.setdefault(kk, []).append(dict(key=kk, clause=key.split('/')[0],
                                           replay=dict(cfg=cfg, setting=sid, transport=transport, value=vs),
                                           detail=dict(cause=cause, setting=sid, transport=transport)))
    res = []
    for key, lst in out.items():
        lst[0]['n'] = len(lst)
        res.append(lst[0])
    return n, res, ne


def sample_setting(sid, transport, seed):
    cfg = list(settings_configs())[0]
    n, vio, ne = run_setting(cfg, sid, transport, False, seed)
    return dict(config=cfg['name'], setting=sid, transport=transport, values_written_and_read_back=n, distinct_encodings=ne,
                violations=[v[0] for v in vio])


def run(tier, seed, rep):
    # histories of public API calls and device changes on one object, then probes of the API-level properties
    from .. import api_sessions
    _api = api_sessions.explore(tier, seed, {'C17'})
    rep.add_many([v for v in _api['violations'] if v['prop'] == 'C17'])
    jobs = []
    for cfg in settings_configs():
        r = make_rig(cfg)
        r.call(r.inv.read_device_info)
        sids = [s.id_ for s in r.inv.settings() if in_scope(cfg, s)]
        bytype = {}
        for s in r.inv.settings():
            if in_scope(cfg, s):
                bytype.setdefault(type(s).__name__, []).append(s.id_)
        fullset = {v[seed % len(v)] for v in bytype.values()}
        for transport in (('udp', 'tcp') if cfg['family'] != 'ES' else ('udp',)):
            for sid in sids:
                # thorough: the whole encodable domain for EVERY setting of ET-v2 / DT / ES over UDP, and for one setting
                # per type on the other configurations and over TCP
                full = tier == 'thorough' and ((transport == 'udp' and cfg['name'] in ('ET-v2', 'DT-3ph', 'DT-1ph', 'ES-aa55', 'ES-v2'))
                                               or (sid in fullset and (transport == 'udp' or cfg['name'] == 'ET-v2')))
                jobs.append((cfg, sid, transport, full, seed))
    ejobs = []
    for cfg in settings_configs():
        if cfg['family'] == 'ES':
            continue
        r = make_rig(cfg)
        r.call(r.inv.read_device_info)
        bytype = {}
        for s in r.inv.settings():
            if in_scope(cfg, s):
                bytype.setdefault(type(s).__name__, []).append(s.id_)
        for ids in bytype.values():
            sid = ids[seed % len(ids)]
            for transport in ('udp', 'tcp'):
                for ka in (False, True):
                    for lat in ENV_LATENCY:
                        ejobs.append((cfg, sid, transport, ka, lat, 0, seed))
                    ejobs.append((cfg, sid, transport, 'ka+newloop' if ka else 'newloop', 0.001, 0, seed))
                    if transport == 'udp' or tier == 'thorough':
                        for code in (1, 2, 3, 4, 5, 6, 7, 8, 10, 11, 0x55):
                            ejobs.append((cfg, sid, transport, ka, 0.001, code, seed))
    ntwo = 0
    for n, res in pmap(job_two_objects, [(kinds, (a, b), tr) for tr in ('tcp', 'udp') for kinds in (('ET+r1', 'ET+r1'), ('ET+r1', 'ET745+r1'), ('DT+r1', 'ET'))
                                         for a in ('write_scalar', 'write_eco') for b in ('write_scalar', 'set_eco_charge', 'read_runtime_data')]):
        ntwo += n
        rep.add_many(res)
    nsp = 0
    spjobs = [(c, sid, tr, ka, seed) for c in settings_configs() if c['family'] != 'ES'
              for sid in ('grid_export_limit', 'battery_soc_protection', 'eco_mode_2_switch', 'eco_mode_2') for tr in ('tcp',) for ka in (False, True)]
    # (Modbus/TCP only: there a transmission that timed out takes its connection with it, so its late answer cannot reach a
    # later request.  Over UDP nothing ties an answer to its request - a late acknowledgement CAN land in the read-back; a
    # network fault like that is outside what this property quantifies over, DESIGN 7.4)
    for n, res in pmap(job_spike, spjobs):
        nsp += n
        rep.add_many(res)
    ncl = 0
    cljobs = [(c, sid, tr, seed) for c in settings_configs() if c['family'] != 'ES'
              for sid in ('grid_export_limit', 'battery_discharge_depth', 'eco_mode_2_switch', 'work_mode', 'shadow_scan_pv1') for tr in ('udp', 'tcp')]
    for n, res in pmap(job_clamping, cljobs):
        ncl += n
        rep.add_many(res)
    now_ = 0
    owjobs = [(c, sid, tr, ka, seed) for c in settings_configs() if c['family'] != 'ES'
              for sid in ('grid_export_limit', 'eco_mode_2', 'battery_discharge_depth', 'eco_mode_2_switch', 'time') for tr in ('udp', 'tcp') for ka in (False, True)]
    for n, res in pmap(job_overlapping_writes, owjobs):
        now_ += n
        rep.add_many(res)
    nlt = 0
    ltjobs = [(c, sid, ka, seed) for c in settings_configs() if c['family'] != 'ES'
              for sid in ('grid_export_limit', 'eco_mode_2', 'battery_discharge_depth') for ka in (False, True)]
    for n, res in pmap(job_after_lost_tail, ltjobs):
        nlt += n
        rep.add_many(res)
    nnb = 0
    for n, res in pmap(job_neighbour, [(c, seed) for c in settings_configs()]):
        nnb += n
        rep.add_many(res)
    nenv = 0
    for n, res in pmap(job_env, ejobs, chunksize=4):
        nenv += n
        rep.add_many(res)
    total = 0
    ne = 0
    for n, res, e in pmap(job, jobs, chunksize=2):
        total += n
        ne += e
        rep.add_many(res)
    cov = dict(two_object_interleavings=ntwo, writes_with_a_latency_spike=nsp, writes_the_inverter_stored_differently=ncl, overlapping_write_pairs=now_, writes_after_a_read_that_lost_its_tail=nlt, writes_with_a_neighbour_object=nnb, environment_runs=nenv, api_session_histories=_api['histories'], api_session_states=_api['states'],
               states=max(ne, 1), transitions=max(total, 1), executions=total, traces_validated_against_impl=total,
               settings_jobs=len(jobs), distinct_encodings_written=ne, exhaustive=(tier == 'thorough'),
               bound='every setting of ET (eco v1 / v2 / 745 variants), DT (single / three phase) and the register-addressed ES '
                     'settings (AA55 and Modbus) x Modbus RTU/UDP, Modbus/TCP, AA55: ' +
                     ('full encodable domain for one setting per type and transport (all 65535 values of 2-byte types, all '
                      '256 values x all 65536 prior register contents factored for one-byte types), ' if tier == 'thorough' else '') +
                     'boundary values for every setting; group settings: every field at its bounds x schedule types; '
                     'each write is checked by diffing the device register file and write log, then read back',
               state_definition='states = distinct register encodings written; transitions = write+read-back round trips',
               samples=[sample_setting('grid_export_limit', 'udp', seed), sample_setting('eco_mode_1_switch', 'tcp', seed)])
    return dict(level='model_checking', coverage=cov,
                assumptions=['device model: function 6/16 store registers, AA55 0239 stores registers',
                             'values whose encoding is the no-value sentinel (0xFFFF / 0xFFFFFFFF) are outside the domain',
                             'settings whose type defines no encoding (Calculated dod, Temp) and the fake ES time setting are '
                             'outside the property'])


def replay(r):
    if r.get('part') == 'api-session':
        from .. import api_sessions
        out = api_sessions.replay(r)
        out['violations'] = [m for m in out['violations'] if m[0] == 'C17']
        return out
    if r.get('part') == 'two-objects':
        n, res = job_two_objects((tuple(r['kinds']), tuple(r['ops']), r['transport']))
        return dict(interleavings=n, violations=[(v['key'], v['detail']['cause']) for v in res])
    cfg = r['cfg']
    cfg['refused'] = tuple(cfg['refused'])
    if 'firmware' in cfg and isinstance(cfg['firmware'], dict):
        cfg['firmware'] = bytes.fromhex(cfg['firmware']['hex'])
    if r.get('part') == 'spike':
        n, res = job_spike((cfg, r['sid'], r['transport'], r['ka'], r['seed']))
        return dict(writes=n, violations=[(v['key'], v['detail']['cause']) for v in res])
    if r.get('part') == 'clamping':
        n, res = job_clamping((cfg, r['sid'], r['transport'], r['seed']))
        return dict(writes=n, violations=[(v['key'], v['detail']['cause']) for v in res])
    if r.get('part') == 'overlapping-writes':
        n, res = job_overlapping_writes((cfg, r['sid'], r['transport'], r['ka'], r['seed']))
        return dict(pairs=n, violations=[(v['key'], v['detail']['cause']) for v in res])
    if r.get('part') == 'lost-tail':
        n, res = job_after_lost_tail((cfg, r['sid'], r['ka'], r['seed']))
        return dict(writes=n, violations=[(v['key'], v['detail']['cause']) for v in res])
    if r.get('part') == 'neighbour':
        n, res = job_neighbour((cfg, r['seed']))
        return dict(writes=n, violations=[(v['key'], v['detail']['cause']) for v in res])
    if r.get('part') == 'env':
        n, vio = run_env(cfg, r['sid'], r['transport'], r['ka'], r['latency'], r['reject'], r['seed'])
        return dict(evaluations=n, violations=[(a, b) for a, b, c in vio])
    n, vio, _ = run_setting(cfg, r['setting'], r['transport'], False, 0)
    return dict(evaluations=n, violations=[(a, b) for a, b, c in vio])
