"""C11 stage: overlapping polls on ONE inverter object.  Every poll returns every id it covers, whatever other poll of the
same object is in progress: the second (third) read_runtime_data() / read_settings_data() starts after the inverter has
received k requests of the first one, for EVERY k from 0 to the number of requests one poll makes (and half a device
latency later, so that "request sent, answer outstanding" and "answer just delivered" are both visited).  Oracle: the
result of each overlapping call equals the result of the same call made alone on an identical inverter."""
from __future__ import annotations

import asyncio

from ..configs import make_rig
from ..peer import D0

CFGS = {
    'ET': dict(family='ET', tag='ETU', power=3000, refused=(), battery_mode=2),
    'ET-mppt': dict(family='ET', tag='ETT', power=25000, refused=(), battery_mode=2),
    'ET-nobat': dict(family='ET', tag='ETU', power=3000, refused=('battery',), battery_mode=0),
    'DT': dict(family='DT', tag='DTU', power=10000, refused=(), battery_mode=0),
    'ES': dict(family='ES', tag='ESU', power=5000, refused=(), battery_mode=0),
}
CALLS = ('read_runtime_data', 'read_settings_data')


def _norm(res):
    if res[0] != 'ok':
        return res
    return ('ok', tuple((k, repr(v)) for k, v in res[1].items()))


def solo(name, transport, ka, call):
    r = make_rig(CFGS[name], transport, R=1, ka=ka)
    r.call(r.inv.read_device_info)
    l0 = len(r.dev.log)
    res = r.call(getattr(r.inv, call))
    return _norm(res), len(r.dev.log) - l0


def run_case(name, transport, ka, calls, k, half, want):
    """calls[0] starts at once; calls[1:] start when the inverter has received k (2k, ...) requests (+ half a latency)."""
    r = make_rig(CFGS[name], transport, R=1, ka=ka)
    r.call(r.inv.read_device_info)
    l0 = len(r.dev.log)
    out = [None] * len(calls)

    async def main():
        async def one(i, call):
            if i:
                while len(r.dev.log) - l0 < k * i and any(o is None for o in out[:i]):
                    await asyncio.sleep(D0 / 4)
                if half:
                    await asyncio.sleep(D0 / 2)
            try:
                out[i] = ('ok', await getattr(r.inv, call)())
            except Exception as e:  # noqa: BLE001
                out[i] = ('exc', type(e).__name__, str(getattr(e, 'message', '') or e)[:80])
            out[i] = _norm(out[i])      # what the caller holds at the moment the call returns
        await asyncio.gather(*[one(i, c) for i, c in enumerate(calls)])
    r.loop.kern.ntx = 0
    r.loop.kern.tx_cap = 4000
    st, _ = r.loop.run(main())
    vio = []
    if st == 'hang':
        return [('overlapping-polls-return', f'{name} {transport} ka={int(ka)} {list(calls)} k={k}: did not finish')]
    for i, c in enumerate(calls):
        w = want[c]
        if out[i] != w:
            if out[i][0] == 'ok' and w[0] == 'ok':
                got, exp = dict(out[i][1]), dict(w[1])
                missing = [x for x in exp if x not in got]
                diff = [x for x in exp if x in got and got[x] != exp[x]]
                cause = f'{len(missing)} of {len(exp)} ids missing (e.g. {missing[:3]})' if missing else f'values differ from the call made alone (e.g. {diff[:3]})'
                clause = 'every-id-present' if missing else 'same-values-as-alone'
            else:
                cause, clause = f'{str(out[i])[:80]} instead of {str(w)[:60]}', 'same-outcome-as-alone'
            vio.append((f'{clause}/overlapping-polls', f'{name} {transport} ka={int(ka)}: call #{i} ({c}) of {list(calls)}, the later ones started after '
                                                        f'{k} request(s){" + half a latency" if half else ""}: {cause}'))
    return vio


def job(j):
    name, transport, ka = j
    fam = CFGS[name]['family']
    calls_avail = CALLS if fam != 'DT' else ('read_runtime_data',)
    want, nreq = {}, {}
    for c in CALLS:
        want[c], nreq[c] = solo(name, transport, ka, c)
    res, n = [], 0
    seqs = [(a, b) for a in calls_avail for b in calls_avail] + [('read_runtime_data',) * 3]
    for calls in seqs:
        for k in range(0, nreq[calls[0]] + 2):
            for half in (0, 1):
                n += 1
                for clause, cause in run_case(name, transport, ka, calls, k, half, want):
                    res.append((f'{clause}/{name}/{transport}', clause,
                                dict(kind='overlap', name=name, transport=transport, ka=ka, calls=list(calls), k=k, half=half), dict(cause=cause)))
    return n, res


def run_part(tier, seed, rep):
    from ..explore import pmap
    jobs = [(name, tr, ka) for name in CFGS for tr in (('udp', 'tcp') if CFGS[name]['family'] != 'ES' else ('udp',)) for ka in (False, True)]
    n = 0
    for k, res in pmap(job, jobs):
        n += k
        seen = set()
        for key, clause, rp, detail in res:
            if key not in seen:
                seen.add(key)
                rep.add(key, clause, rp, detail)
    return n


def replay(r):
    want = {c: solo(r['name'], r['transport'], r['ka'], c)[0] for c in set(r['calls'])}
    v = run_case(r['name'], r['transport'], r['ka'], tuple(r['calls']), r['k'], r['half'], want)
    return dict(violations=[c for _, c in v])
