"""C12 - each sensor value is the documented reading of exactly its own registers (DESIGN 3, C12)."""
from __future__ import annotations

from .. import world, refdec
from ..blocks import all_tables, Table, own_span, tname, context, poke
from ..explore import pmap, h
from ..sensor_enum import own_values, read_outcome, compare

Inverter = world.goodwe.Inverter


def sensor_jobs(tier, seed):
    """(table index, sensor index, full?)"""
    tabs = all_tables()
    seen_types = set()
    jobs = []
    for ti, t in enumerate(tabs):
        for si, s in enumerate(t.sensors):
            if not own_span(s):
                continue
            key = (t.family, t.name.split(':')[0], tname(s))
            full = tier == 'thorough'
            if not full:
                # one sensor per (table, type) exhaustively - which one is rotated by the seed
                k = (key, )
                cnt = sum(1 for x in t.sensors if tname(x) == tname(s))
                idx = [i for i, x in enumerate(t.sensors) if tname(x) == tname(s)]
                full = idx[seed % len(idx)] == si and refdec.size_of(s) <= 4
            jobs.append((ti, si, full))
    return tabs, jobs


def eval_sensor(t: Table, s, full, seed, stats):
    """Enumerate own-register contents in three block placements; perturb every other register."""
    vio = []
    n = refdec.size_of(s)
    big = t.mode == 'modbus' and t.nbytes > 250
    placements = [] if big else [('table', t)]
    if big:
        # settings tables are never fetched as one block: the sensor is read from a window round its own address
        t = Table(t.family, t.name, [s], 'modbus', start=max(s.offset - 2, 0), length=n + (n % 2) + 8)
        placements.append(('table', t))
    if t.mode == 'modbus':
        placements.append(('own', Table(t.family, t.name, [s], 'modbus', start=s.offset, length=n + (n % 2))))
        if s.offset > 0:
            placements.append(('own-1', Table(t.family, t.name, [s], 'modbus', start=s.offset - 1, length=n + (n % 2) + 2)))
    for pname, tab in placements:
        for transport in (('rtu', 'tcp', 'tcp-len=bytecount', 'tcp-len=0') if (pname == 'own' and tab.mode == 'modbus') else
                          ('rtu', 'tcp-len=bytecount') if (pname == 'table' and tab.mode == 'modbus' and not full) else ('rtu',)):
            for variant in ((0, 1, 2) if pname == 'table' and not full else (0,)):
                ctx = context(tab.nbytes, seed, variant)
                resp = tab.response(bytes(ctx), transport)
                pos = tab.byte_pos(s)
                vals = own_values(s, full and pname == 'table' and variant == 0)
                fresh = transport.startswith('tcp-len')      # built anew per value: the header field must be re-read
                if fresh:
                    vals = own_values(s, False)
                for b in vals:
                    if fresh:
                        ctx[pos:pos + len(b)] = b
                        resp = tab.response(bytes(ctx), transport)
                    else:
                        poke(resp, pos, b)
                    got = read_outcome(s, resp)
                    ref = refdec.decode(s, b)
                    stats[0] += 1
                    if got[0] != 'value' or (got[1] is not None and got[1] != 0 and got[1] != ''):
                        stats[1] += 1
                    d = compare(s, got, ref)
                    if d:
                        vio.append((f'documented-reading/{t.family}/{tname(s)}', s.id_, pname, b.hex(), d))
                        if len(vio) > 20:
                            return vio
    # non-interference: flipping any other register of the table block never changes the value
    ctx = context(t.nbytes, seed, 3)
    pos = t.byte_pos(s)
    own = set(range(pos, pos + n))
    if tname(s) in ('ByteH', 'EnumH', 'Byte', 'Enum'):
        own = {pos}
    base_resp = t.response(bytes(ctx))
    base = read_outcome(s, base_resp)
    for i in range(0, t.nbytes):
        if i in own:
            continue
        for newv in (0xFF, ctx[i] ^ 0xFF, 0x00):
            if newv == ctx[i]:
                continue
            poke(base_resp, i, bytes([newv]))
            got = read_outcome(s, base_resp)
            stats[0] += 1
            if repr(got) != repr(base) and not (isinstance(got[1], object) and str(got) == str(base)):
                vio.append((f'non-interference/{t.family}/{tname(s)}', s.id_, 'table', f'byte {i} -> {newv:#x}',
                            f'{str(base)[:50]} became {str(got)[:50]}'))
            poke(base_resp, i, bytes([ctx[i]]))
        if len(vio) > 20:
            break
    return vio


def job(j):
    ti, si, full, seed = j
    world.reset()
    tabs = all_tables()
    t = tabs[ti]
    s = t.sensors[si]
    stats = [0, 0]
    vio = eval_sensor(t, s, full, seed, stats)
    out = {}
    for key, sid, pname, b, d in vio:
        out.setdefault(key, []).append(dict(key=key, clause=key.split('/')[0],
                                            replay=dict(table=[t.family, t.name], sensor=sid, placement=pname, own=b),
                                            detail=dict(sensor=sid, table=t.name, placement=pname, own_bytes=b, diff=d)))
    res = []
    for key, lst in out.items():
        v = lst[0]
        v['n'] = len(lst)
        res.append(v)
    return stats[0], stats[1], res, (t.family, t.name, s.id_, tname(s), full)


def address_map_part(rep):
    """The register map (id -> type, address, scale, unit) pinned from the vendor register documentation as encoded
    at the pinned commit: an id that is still present must still point at the same registers with the same type."""
    import json
    import os
    pinned = json.load(open(os.path.join(os.path.dirname(os.path.dirname(__file__)), 'data', 'address_map.json')))
    n = 0
    for fam, cls in world.FAMILIES.items():
        for name, sensors in world.tables(cls).items():
            cur = {}
            for x in sensors:
                cur.setdefault(x.id_, []).append([x.id_, tname(x), x.offset, getattr(x, 'scale', None),
                                                  getattr(x, '_offsetL', None), x.unit])
            for row in pinned.get(f'{fam}.{name}', []):
                n += 1
                if row[0] in cur and row not in cur[row[0]]:
                    rep.add(f'register-map/{fam}.{name}/{row[0]}', 'register-map',
                            dict(table=[fam, name], sensor=row[0], placement='map', own='map'),
                            dict(pinned=row, current=cur[row[0]]))
    return n


FILLS = 4


def api_fill(k, seed):
    if isinstance(k, int) and k >= 100:
        # small values in neighbouring registers: even addresses hold (k-100)//4, odd addresses (k-100)%4 - over k = 100..115
        # every pair of adjacent registers takes every combination of {0,1,2,3} (status / mode words that a value might
        # wrongly be made to depend on)
        x, y = (k - 100) // 4, (k - 100) % 4
        return lambda a: x if a % 2 == 0 else y
    if k == 0:
        return lambda a: 0xFFFF
    if k == 1:
        return lambda a: 0x8000 | (a & 1)
    return lambda a: ((a * 2654435761 + k * 40503 + seed * 7919) >> 7) & 0xFFFF


def job_api(j):
    """End to end on configured objects: every value in a read_runtime_data() result is the documented reading of the
    device model's registers at the sensor's pinned address - whatever read_device_info made of the sensor tables for
    this model, whichever blocks the values travelled in, over real transports."""
    import json
    import os
    from ..configs import make_rig
    cfg, transport, seed = j
    fam = cfg['family']
    pinned = json.load(open(os.path.join(os.path.dirname(os.path.dirname(__file__)), 'data', 'address_map.json')))
    rows = {}
    for tab, lst in pinned.items():
        if tab.startswith(fam + '.'):
            for row in lst:
                rows.setdefault(row[0], []).append(row)
    vio = {}
    n = 0

    def bad(key, sid, cause, k):
        vio.setdefault(key, []).append(dict(key=key, clause=key.split('/')[0].split(':')[1],
                                            replay=dict(part='api', cfg=cfg, transport=transport, seed=seed),
                                            detail=dict(sensor=sid, cause=cause, fill=k, model=cfg['tag'], rated=cfg['power'])))
    # (the last pass repeats one fill with the library's logging at its default level instead of DEBUG)
    for k in list(range(FILLS)) + (list(range(100, 116)) if cfg.get('small_pairs') else []) + \
            ['default-logging', 'overlapped', 'overlapped+ka', 'second-poll', 'second-poll+ka'] + \
            ([f'cut@{i}:{hd}' for i in range(8) for hd in ((9, 60) if i == 0 else (60,))] if fam != 'ES' else []):
        world.reset()
        world.set_debug_logging(k != 'default-logging')
        mode = k if isinstance(k, str) else ''
        if isinstance(k, str):
            k = 2
        r = make_rig(cfg, transport, fill=api_fill(k, seed), ka=mode.endswith('+ka'), R=1 if mode.startswith('cut@') else 0)
        inv = r.inv
        if fam == 'ES':
            f = api_fill(k, seed)
            for i in range(len(r.dev.runtime)):
                r.dev.runtime[i] = f(i) & 0xFF
        if r.call(inv.read_device_info)[0] != 'ok':
            continue
        if mode.startswith('second-poll') and fam != 'ES':
            # the object was polled before; meanwhile every register OUTSIDE the first block of the poll changed (the first
            # block - with the inverter's clock - reads the same): the values follow their own registers, not the last poll
            lp = len(r.dev.log)
            r.call(inv.read_runtime_data)
            prev_windows = [(q['reg'], q['reg'] + q['count'] - 1) for q in r.dev.log[lp:] if q.get('fn') == 3]
            first = min(q['reg'] for q in r.dev.log if q.get('fn') == 3 and q['count'] > 8) if any(q.get('fn') == 3 and q['count'] > 8 for q in r.dev.log) else 0
            lo, hi = (35100, 35224) if fam == 'ET' else (30100, 30172)
            old_fill = r.dev.rf.fill
            r.dev.rf.fill = lambda a, f=old_fill, lo=lo, hi=hi: f(a) if lo <= a <= hi else (f(a) ^ 0x0155) & 0xFFFF
        l0 = len(r.dev.log)
        if mode.startswith('cut@'):
            # only the first bytes of the answer to the i-th request of the poll arrive (the rest is lost); the request is
            # transmitted again and answered in full: the values are the reading of the answer that was accepted
            ci, hd = mode[4:].split(':')
            r.dev.head_only_at = {l0 + int(ci): int(hd)}
        if mode.startswith('overlapped'):
            # the poll runs while other calls on the same object are pending / queued (single reads of other registers)
            import asyncio
            others = [x.id_ for x in world.listed(inv) if own_span(x)]

            async def overlapped():
                res = await asyncio.gather(inv.read_runtime_data(), inv.read_sensor(others[0]), inv.read_sensor(others[-1]),
                                           inv.read_setting('grid_export_limit'), return_exceptions=True)
                if isinstance(res[0], BaseException):
                    raise res[0]
                return res[0]
            st = r.call(overlapped)
        else:
            st = r.call(inv.read_runtime_data)
        if st[0] != 'ok':
            continue
        d = st[1]
        # (blocks of the poll only: the overlapped single reads fetch at most 4 registers)
        windows = [(q['reg'], q['reg'] + q['count'] - 1) for q in r.dev.log[l0:] if q.get('fn') == 3 and
                   (not mode.startswith('overlapped') or q['count'] > 8)]
        if mode.startswith('second-poll') and fam != 'ES':
            windows = windows + prev_windows      # what the previous poll fetched and reported is still reported: from where?
        ids = [s.id_ for s in world.listed(inv)]
        for s in world.listed(inv):
            if not own_span(s) or s.id_ not in d:
                continue
            if ids.count(s.id_) > 1:
                continue      # two sensors share the id, the result has one slot: which one fills it is C16's subject
            if fam != 'ES' and not any(lo <= s.offset and s.offset + (refdec.size_of(s) + 1) // 2 - 1 <= hi for lo, hi in windows):
                continue      # registers not inside a block that was fetched: C14's subject
            row = [s.id_, tname(s), s.offset, getattr(s, 'scale', None), getattr(s, '_offsetL', None), s.unit]
            if s.id_ in rows and row not in rows[s.id_]:
                bad(f'api:register-map/{fam}/{s.id_}', s.id_, f'object uses {row}, documented {rows[s.id_]}', k)
                continue
            nb = refdec.size_of(s)
            if fam == 'ES':
                if s.offset + nb > len(r.dev.runtime):
                    continue
                own = bytes(r.dev.runtime[s.offset:s.offset + nb])
            else:
                own = r.dev.rf.getbytes(s.offset, (nb + 1) // 2)[:nb]
            ref = refdec.decode(s, own)
            got = ('ValueError', '') if (d[s.id_] is None and ref is refdec.NOVALUE) else ('value', d[s.id_])
            n += 1
            df = compare(s, got, ref)
            if df:
                bad(f'api:documented-reading/{fam}/{tname(s)}' + ('/overlapping-calls' if mode.startswith('overlapped') else
                                                                   '/second-poll-after-other-blocks-changed' if mode.startswith('second') else
                                                                   '/after-an-answer-cut-short' if mode.startswith('cut@') else ''),
                    s.id_, f'{s.id_} @{s.offset} = {own.hex()}: {df}' + (f' ({mode})' if mode else ''), k)
    world.set_debug_logging(True)
    # ids that two sensors of the model share (the result has one slot): WHICH of them fills the slot is settled on
    # contents where both decode and differ; with other contents the slot still holds that sensor's documented reading
    if fam != 'ES':
        eff = {}
        for k in (2, 3, 0, 1):
            world.reset()
            r = make_rig(cfg, transport, fill=api_fill(k, seed))
            inv = r.inv
            if r.call(inv.read_device_info)[0] != 'ok':
                break
            r.call(inv.read_runtime_data)
            l0 = len(r.dev.log)
            st = r.call(inv.read_runtime_data)
            if st[0] != 'ok':
                continue
            d = st[1]
            windows = [(q['reg'], q['reg'] + q['count'] - 1) for q in r.dev.log[l0:] if q.get('fn') == 3]
            listed = list(world.listed(inv))
            ids = [s.id_ for s in listed]
            for sid in sorted({x for x in ids if ids.count(x) > 1}):
                cands = [s for s in listed if s.id_ == sid and own_span(s) and
                         any(lo <= s.offset and s.offset + (refdec.size_of(s) + 1) // 2 - 1 <= hi for lo, hi in windows)]
                if len(cands) < 2 or sid not in d:
                    continue
                refs = []
                for s in cands:
                    nb = refdec.size_of(s)
                    refs.append(refdec.decode(s, r.dev.rf.getbytes(s.offset, (nb + 1) // 2)[:nb]))

                def agrees(s, ref):
                    got = ('ValueError', '') if (d[sid] is None and ref is refdec.NOVALUE) else ('value', d[sid])
                    return not compare(s, got, ref)
                if sid not in eff:
                    ok = [i for i, (s, ref) in enumerate(zip(cands, refs)) if agrees(s, ref)]
                    if len(ok) == 1 and all(x is not refdec.NOVALUE for x in refs):
                        eff[sid] = (tname(cands[ok[0]]), cands[ok[0]].offset)
                    continue
                pick = [(s, ref) for s, ref in zip(cands, refs) if (tname(s), s.offset) == eff[sid]]
                if pick:
                    n += 1
                    if not agrees(*pick[0]):
                        s, ref = pick[0]
                        bad(f'api:documented-reading/{fam}/{tname(s)}/id-shared-by-two-sensors', sid,
                            f'{sid}: the slot holds {d[sid]!r}; with other contents it was filled by {eff[sid][0]}@{eff[sid][1]}, whose '
                            f'registers now read {ref!r} (fill {k})', k)
    # single reads through both entry points, in both orders, on one object: read_sensor(id) / read_setting(id) report the
    # documented reading of THAT item's registers (ids may name a sensor and a setting at different addresses)
    if cfg.get('singles'):
        sigs = {}
        for order in ('sensors-first', 'settings-first', 'sensors-first+neighbour', 'settings-first+neighbour', 'sensors-first+twice-at-once'):
            world.reset()
            r = make_rig(cfg, transport, fill=api_fill(2, seed))
            inv = r.inv
            if fam == 'ES':
                f = api_fill(2, seed)
                for i in range(len(r.dev.runtime)):
                    r.dev.runtime[i] = f(i) & 0xFF
            if r.call(inv.read_device_info)[0] != 'ok':
                continue
            if order.endswith('+neighbour'):
                # another object of the same family but another model class is detected and used in this process
                from ..configs import configure_neighbour
                configure_neighbour(cfg)
            sens = [('sensor', s) for s in world.listed(inv) if own_span(s)]
            sets = [('setting', s) for s in inv.settings() if own_span(s)]
            # which registers an id stands for on THIS object must not depend on other objects in the process
            sig = {(k, s.id_): (tname(s), s.offset, getattr(s, 'scale', None), s.unit) for k, s in sens + sets}
            base = sigs.setdefault(order.split('+')[0], sig) if not order.endswith('+neighbour') else sigs.get(order.split('+')[0], sig)
            for key_ in sorted(set(sig) | set(base)):
                if sig.get(key_) != base.get(key_):
                    bad(f'api:register-map/{fam}/{key_[1]}/changed-by-another-object', key_[1],
                        f'{key_[0]} {key_[1]}: {base.get(key_)} alone, {sig.get(key_)} after another {fam} object was detected', 2)
            ids = [s.id_ for _, s in sens]
            for kind, s in (sens + sets if order.startswith('sensors-first') else sets + sens):
                if kind == 'sensor' and ids.count(s.id_) > 1:
                    continue
                nb = refdec.size_of(s)
                if fam == 'ES' and (s.offset < 1000 or kind == 'sensor'):
                    continue     # AA55 blob items are not read singly
                fn = inv.read_sensor if kind == 'sensor' else inv.read_setting
                if order.endswith('+twice-at-once'):
                    # two consumers ask for the same item at the same time: each gets the documented reading
                    import asyncio
                    if tname(s) in ('EcoModeV1', 'EcoModeV2', 'Schedule', 'PeakShavingMode'):
                        continue      # (group values are one shared object: C20's known finding, not two readings)

                    async def twice(fn=fn, sid=s.id_):
                        return await asyncio.gather(fn(sid), fn(sid), return_exceptions=True)
                    both = r.call(twice)
                    sts = [('exc',) if isinstance(x, BaseException) else ('ok', x) for x in both[1]] if both[0] == 'ok' else []
                else:
                    sts = [r.call(fn, s.id_)]
                for ci, st in enumerate(sts):
                    if st[0] != 'ok':
                        continue
                    own = r.dev.rf.getbytes(s.offset, (nb + 1) // 2)[:nb]
                    ref = refdec.decode(s, own)
                    got = ('ValueError', '') if (st[1] is None and ref is refdec.NOVALUE) else ('value', st[1])
                    n += 1
                    df = compare(s, got, ref)
                    if df:
                        bad(f'api:documented-reading/{fam}/read_{kind}/{tname(s)}' + ('/two-consumers-at-once' if len(sts) > 1 else ''), s.id_,
                            f'read_{kind}({s.id_!r}) @{s.offset} = {own.hex()}: {df} ({order}' + (f', consumer {ci + 1} of 2)' if len(sts) > 1 else ')'), 2)
    # a setting the application wrote itself: afterwards somebody else (the vendor's app, the inverter) changes the register;
    # what read_setting() reports next is the reading of the register as it is then - at once, and once more
    if cfg.get('singles') and fam != 'ES':
        world.reset()
        r = make_rig(cfg, transport, fill=api_fill(2, seed))
        inv = r.inv
        if r.call(inv.read_device_info)[0] == 'ok':
            for s in [x for x in inv.settings() if own_span(x) and refdec.size_of(x) <= 2 and tname(x) not in ('ByteH', 'ByteL')]:
                st0 = r.call(inv.read_setting, s.id_)
                if st0[0] != 'ok' or st0[1] is None:
                    continue
                if r.call(inv.write_setting, s.id_, st0[1])[0] != 'ok':
                    continue
                for other in (r.dev.rf.get(s.offset) ^ 0x0003, 7):
                    r.dev.rf.set(s.offset, other)
                    st = r.call(inv.read_setting, s.id_)
                    if st[0] != 'ok':
                        continue
                    own = r.dev.rf.getbytes(s.offset, 1)[:refdec.size_of(s)]
                    ref = refdec.decode(s, own)
                    got = ('ValueError', '') if (st[1] is None and ref is refdec.NOVALUE) else ('value', st[1])
                    n += 1
                    df = compare(s, got, ref)
                    if df:
                        bad(f'api:documented-reading/{fam}/read_setting/{tname(s)}/after-writing-it', s.id_,
                            f'read_setting({s.id_!r}) @{s.offset} = {own.hex()} after write_setting({s.id_!r}, {st0[1]!r}) and a change of the register: {df}', 2)
    res = []
    for key, lst in vio.items():
        lst[0]['n'] = len(lst)
        res.append(lst[0])
    return n, res


def sample_case(fam, table, sid, own_hex, seed):
    t = [x for x in all_tables() if x.family == fam and x.name == table][0]
    s = [x for x in t.sensors if x.id_ == sid][0]
    resp = t.response(bytes(context(t.nbytes, seed, 0)))
    poke(resp, t.byte_pos(s), bytes.fromhex(own_hex))
    got = read_outcome(s, resp)
    return dict(table=f'{fam}.{table}', sensor=sid, own_registers=own_hex, decoded=str(got)[:80],
                reference=str(refdec.decode(s, bytes.fromhex(own_hex)))[:80])


def job_table(j):
    """Whole tables decoded in ONE process, every register holding the same word (so that different sensors see
    identical bytes), sensors taken in table order and in reverse order: a value must depend on nothing but the
    sensor's own registers - in particular not on what another sensor decoded before it."""
    ti, seed = j
    world.reset()
    t = all_tables()[ti]
    if t.mode == 'modbus' and t.nbytes > 250:
        # settings tables are read one sensor at a time: give every sensor its own window with the same content
        wins = [(s, Table(t.family, t.name, [s], 'modbus', start=s.offset, length=refdec.size_of(s) + refdec.size_of(s) % 2))
                for s in t.sensors if own_span(s)]
    else:
        wins = None
    # several consecutive contents that make date / schedule sensors uninterpretable come first, valid ones after them:
    # a value must not depend on how earlier responses decoded
    words = [0x0000, 0x0001, 0x0040, 0x0100, 0x6363, 0x0B0B, 0x1234, 0x7FFF, 0x8000, 0x8001, 0xFFFE, 0x0303, 0x0040, 0x0001,
             (seed * 2654435761 >> 7) & 0xFFFF, 0x0B0B, 0x173B, 0x00FF, 0x0601, 0x0017, 0x0000, 0x0000, 0x0000, 0x0000, 0x0601]
    n = 0
    out = {}
    for order in ('forward', 'reverse', 'forward'):
        for w in words:
            pat = bytes([w >> 8, w & 0xFF])
            if wins is None:
                resp = t.response(pat * (t.nbytes // 2) + pat[:t.nbytes % 2])
                pairs = [(s, t, resp) for s in t.sensors if own_span(s)]
            else:
                pairs = [(s, tab, tab.response(pat * (tab.nbytes // 2))) for s, tab in wins]
            if order == 'reverse':
                pairs = pairs[::-1]
            # the reporting path: Inverter._map_response (what read_runtime_data / read_settings_data hand out)
            mapped = {}
            if wins is None:
                try:
                    mapped = Inverter._map_response(resp, tuple(x for x, _, _ in pairs))
                except BaseException:  # noqa: BLE001  (totality is C11's business)
                    mapped = None
            for s, tab, resp in pairs:
                pos = tab.byte_pos(s)
                nb = refdec.size_of(s)
                own = (pat * 8)[:nb]
                if tab.mode != 'modbus':
                    own = bytes(resp.response_data()[pos:pos + nb])
                if len(own) != nb:
                    continue
                ref = refdec.decode(s, own)
                got = read_outcome(s, resp)
                n += 1
                d = compare(s, got, ref)
                if wins is not None:
                    try:
                        rep_v = Inverter._map_response(resp, (s,))
                    except BaseException:  # noqa: BLE001
                        rep_v = None
                else:
                    rep_v = mapped
                if d is None and rep_v is not None and got[0] != 'raised':
                    # reported value == directly decoded value (None where the registers are uninterpretable)
                    r_ = rep_v.get(s.id_, 'missing')
                    dup = sum(1 for x, _, _ in pairs if x.id_ == s.id_) > 1
                    if not dup:
                        if got[0] == 'ValueError':
                            if r_ is not None:
                                d = f'reported {str(r_)[:40]!r} although its registers are uninterpretable'
                        elif isinstance(ref, dict):
                            if r_ is None or refdec.group_matches(r_, ref):
                                d = f'reported {str(r_)[:40]!r}, registers decode to a valid group'
                        elif not (refdec.same(r_, got[1]) or r_ == got[1]):
                            d = f'reported {r_!r} but its registers decode to {got[1]!r}'
                        if d:
                            d += ' (reporting path, after earlier responses in the same process)'
                if d:
                    key = f'own-registers-only/{t.family}/{tname(s)}'
                    out.setdefault(key, []).append(dict(key=key, clause='value depends on other sensors / earlier reads',
                                                        replay=dict(table=[t.family, t.name], sensor=s.id_, placement='uniform',
                                                                    own=own.hex()),
                                                        detail=dict(sensor=s.id_, word=hex(w), order=order, diff=d)))
    res = []
    for key, lst in out.items():
        lst[0]['n'] = len(lst)
        res.append(lst[0])
    return n, res


def run(tier, seed, rep):
    # histories of public API calls and device changes on one object; the poll that follows each history is judged
    from .. import api_sessions
    _api = api_sessions.explore(tier, seed, {'C12'})
    rep.add_many([v for v in _api['violations'] if v['prop'] == 'C12'])
    nmap = address_map_part(rep)
    ntab = 0
    for n, res in pmap(job_table, [(i, seed) for i in range(len(all_tables()))]):
        ntab += n
        rep.add_many(res)
    from .c13 import api_configs
    napi = 0
    acfgs = [c for c in api_configs(tier, seed) if c.get('other_small') is None]      # (C13's own register-content variants)
    ajobs = [(c, 'udp', seed) for c in acfgs] + [(c, 'tcp', seed) for c in acfgs if c['family'] != 'ES'][::5]
    step = 1 if tier == 'thorough' else 6
    ajobs += [(dict(c, singles=True), 'udp', seed) for c in acfgs[seed % step::step]]
    # other communication addresses (the values of the protocol's own magic bytes among them)
    ajobs += [(dict(c, comm_addr=ca), tr, seed) for c in (dict(family='ET', tag='ETU', power=10000, refused=(), battery_mode=2),
                                                          dict(family='DT', tag='DTU', power=5000, refused=(), battery_mode=0))
              for ca in (0x55, 0xAA, 0x01, 0x03, 0x7F, 0xF7, 0xFE) for tr in ('udp', 'tcp')]
    # neighbouring registers holding every combination of small values (one configuration per family and meter layout in
    # the quick tier, every configuration in the thorough one)
    sp = acfgs if tier == 'thorough' else [c for i, c in enumerate(acfgs) if i % 7 == seed % 7 or c.get('with_refusals')][:12]
    ajobs += [(dict(c, small_pairs=True), 'udp', seed) for c in sp]
    for n, res in pmap(job_api, ajobs):
        napi += n
        rep.add_many(res)
    tabs, jobs = sensor_jobs(tier, seed)
    jobs = [j + (seed,) for j in jobs]
    total = nontriv = 0
    per_type = {}
    nfull = 0
    for n, nt, res, info in pmap(job, jobs, chunksize=4):
        total += n
        nontriv += nt
        rep.add_many(res)
        per_type[info[3]] = per_type.get(info[3], 0) + 1
        nfull += bool(info[4])
    try:
        from ..refconform import run as refrun
        rn, rok, rmism, _ = refrun()
        refconf = dict(pairs_asserted_by_the_repository_tests_on_recorded_responses=rn, reference_decoder_agrees=rok,
                       disagreements=rmism[:5])
    except Exception as e:  # noqa: BLE001
        refconf = dict(error=f'{type(e).__name__}: {e}')
    cov = dict(api_session_histories=_api['histories'], api_session_states=_api['states'], reference_decoder_conformance=refconf, api_values_compared=napi, api_configurations=len(ajobs),
               evaluations=total + nmap + ntab + napi, uniform_table_evaluations=ntab, distinct_nontrivial=nontriv, register_map_entries_compared=nmap,
               rule='for every sensor with own registers of every table of ET, DT, ES: own-register contents '
                    '(all 65536 values of 2-byte fields and of each half of 4-byte fields, all 256 values of 1-byte fields '
                    'x other half, per-byte and per-word exhaustive for 6/8/12-byte groups over valid baselines) embedded '
                    'in seed-selected block contents at three block start addresses (table start, own address, own '
                    'address - 1) and both Modbus framings, compared with the reference decoder of mc/refdec.py; then '
                    'every other byte of the block is perturbed (0xFF, complement, 0x00) and the value must not change; '
                    'non-trivial = evaluations whose outcome is not a plain zero/None/empty value',
               sensors=len(jobs), sensors_enumerated_exhaustively=nfull, sensors_per_type=per_type, tables=len(tabs),
               exhaustive=(tier == 'thorough'),
               samples=[sample_case('ET', 'all_sensors', 'vpv1', '0cfe', seed),
                        sample_case('ET', 'all_sensors_meter', 'meter_e_total_exp', '40490fdb', seed),
                        sample_case('ES', 'sensors', 'battery_temperature', 'ffff', seed)])
    return dict(level='exploration', coverage=cov,
                assumptions=['reference decoders written from the sensor class docstrings and tests/test_sensor.py',
                             'day/month texts are compared only for documented bit patterns (bits 0-6 / 0-11)',
                             'floats compared exactly below 2^50, relative 1e-12 above'])


def replay(r):
    if r.get('part') == 'api-session':
        from .. import api_sessions
        out = api_sessions.replay(r)
        out['violations'] = [m for m in out['violations'] if m[0] == 'C12']
        return out
    if r.get('part') == 'api':
        cfg = r['cfg']
        cfg['refused'] = tuple(cfg['refused'])
        if isinstance(cfg.get('firmware'), str):
            cfg['firmware'] = cfg['firmware'].encode()
        n, res = job_api((cfg, r['transport'], r['seed']))
        return dict(values=n, violations=[(v['key'], v['detail']['cause']) for v in res])
    tabs = all_tables()
    t = [x for x in tabs if [x.family, x.name] == r['table']][0]
    s = [x for x in t.sensors if x.id_ == r['sensor']][0]
    if r.get('placement') == 'uniform':
        tabs_ = all_tables()
        ti = [i for i, x in enumerate(tabs_) if [x.family, x.name] == r['table']][0]
        n, res = job_table((ti, 0))
        return dict(evaluations=n, violations=[(v['key'], v['detail']['sensor'], v['detail']['diff']) for v in res
                                               if v['detail']['sensor'] == r['sensor'] or True])
    if r['own'] == 'map':
        from ..findings import Report
        rp = Report('C12')
        address_map_part(rp)
        return dict(violations=sorted(k for k in rp.by_key if r['sensor'] in k))
    b = bytes.fromhex(r['own']) if all(c in '0123456789abcdef' for c in r['own']) else None
    if b is None:
        return dict(note='perturbation case: rerun the check', violations=[r['own']])
    n = refdec.size_of(s)
    tab = t if r['placement'] == 'table' else Table(t.family, t.name, [s], 'modbus',
                                                     start=s.offset - (1 if r['placement'] == 'own-1' else 0),
                                                     length=n + (n % 2) + (2 if r['placement'] == 'own-1' else 0))
    resp = tab.response(bytes(context(tab.nbytes, 0, 0)))
    poke(resp, tab.byte_pos(s), b)
    got = read_outcome(s, resp)
    ref = refdec.decode(s, b)
    d = compare(s, got, ref)
    return dict(got=str(got), reference=str(ref), violations=[d] if d else [])
