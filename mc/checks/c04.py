"""C04 - every request terminates after at most retries+1 transmissions (DESIGN 3, C04)."""
from __future__ import annotations

from .. import world
from ..explore import Ctx, Stats, explore, pmap
from ..peer import alphabet, CONNECT, EPS_FRAC
from ..proto import run_single

TOL = 1e-6
# non-initial states: earlier requests on the same protocol object, followed at once by the explored request
PRIORS = {'none': (), 'success': (['valid'],), 'rejected@.5T': (['exc@.5T'],), 'exhausted': (['drop'] * 4,),
          'fragment+valid': (['frag2@.4T'],), 'late-answer': (['valid@1.5T', 'drop', 'drop', 'drop'],),
          'garbage': (['garbage', 'valid'],), 'rejected,success': (['exc@.9T'], ['valid']),
          'timeout+rejected': (['drop', 'exc2'],), 'timeout+icmp': (['drop', 'icmp'],), 'timeout+success': (['drop', 'valid'],),
          # (TCP) the earlier request lost its transmission(s) and could not re-establish the connection
          'drop+reconnect-refused': (dict(tx=['drop'] * 4, conn=['ok'] + ['refused'] * 4),),
          'drop+reconnect-unreachable': (dict(tx=['drop'] * 4, conn=['ok'] + ['unreachable'] * 4),),
          'drop+reconnect-hang': (dict(tx=['drop'] * 4, conn=['ok'] + ['hang'] * 4),),
          'connect-unreachable': (dict(tx=['drop'] * 4, conn=['unreachable'] * 4),),
          # the explored request is issued from the next event loop (successive asyncio.run() calls on a long-lived object)
          'success+NEWLOOP': (['valid'], 'NEWLOOP'), 'exhausted+NEWLOOP': (['drop'] * 4, 'NEWLOOP'),
          'rejected+NEWLOOP': (['exc2'], 'NEWLOOP'), 'NEWLOOP+success+NEWLOOP': ('NEWLOOP', ['valid'], 'NEWLOOP')}


def letters_of(tr):
    # (TCP) plus conforming answers that carry another transaction id than the request
    # ... and the exception codes that invite a client to try again (5 ACKNOWLEDGE, 6 SLAVE DEVICE BUSY)
    return alphabet(tr) + ['exc5', 'exc6'] + (['valid-tx0', 'valid-tx+1'] if tr == 'tcp' else [])


def prior_of(name):
    """'1:<letter>': one earlier request whose first transmission is answered by <letter> (any letter of the alphabet),
    later transmissions of it by 'valid'."""
    return ([name[2:]],) if name.startswith('1:') else PRIORS[name]


def monitor(cfg, obs):
    """-> list of (clause, cause) violated by this execution."""
    T, R = cfg['T'], cfg['R']
    out = []
    res = obs.result
    if res[0] == 'hang':
        out.append(('terminates', res[1]))
        return out
    if res[0] == 'exc' and res[1] not in ('RequestRejectedException', 'RequestFailedException', 'MaxRetriesException', 'PartialResponseException'):
        out.append(('ends-with-a-documented-outcome', f'{res[1]}: {str(res[2])[:60]}'))
    ntx = len(obs.txs)
    if ntx > R + 1:
        out.append(('tx<=R+1', f'{ntx} transmissions'))
    # completion no later than T after the last event of the final attempt (5 s for a connect in progress)
    t1 = obs.t1
    last = obs.t0
    bound = T
    for e in obs.events:
        t = e[2] if e[0] in ('tx', 'rx', 'connect') else e[1]
        if obs.t0 - TOL <= t <= t1 + TOL and t >= last:
            last = t
            bound = 5.0 if e[0] == 'connect' else T
    if t1 > last + bound + TOL:
        out.append(('completes<=last+T', f'done at {t1:.6f}, last event {last:.6f}'))
    # silence: exactly R+1 identical transmissions spaced T, failure at last + T
    # (only if nothing of an earlier request was still in flight when this one started, and nothing arrived meanwhile)
    quiet = obs.get('clean_start', True) and not [e for e in obs.events if e[0] == 'rx' and obs.t0 - TOL <= e[2] <= t1 + TOL] \
        and not any(e[0] == 'connect' and e[1] != 'ok' for e in obs.events)
    if all(ltr == 'drop' for ltr in obs.letters) and all(c[1] == 'ok' for c in obs.connects) and quiet:
        if ntx != R + 1:
            out.append(('silent:R+1', f'{ntx} transmissions'))
        else:
            body = [d[2:] if cfg['transport'] == 'tcp' else d for (_, _, d) in obs.txs]
            if len(set(body)) != 1:
                out.append(('silent:identical', 'transmissions differ'))
            ts = [t for (t, _, _) in obs.txs]
            lat = 0.001 if cfg['transport'] == 'tcp' else 0.0
            for a, b in zip(ts, ts[1:]):
                if abs((b - a) - (T + lat)) > TOL:
                    out.append(('silent:spacing', f'{b - a:.6f}'))
                    break
            if abs(t1 - (ts[-1] + T)) > TOL:
                out.append(('silent:report', f'reported {t1 - ts[-1]:.6f} after last tx'))
        if res[0] != 'exc' or res[1] not in ('RequestFailedException', 'MaxRetriesException'):
            out.append(('silent:outcome', str(res[:2])))
    return out


def classify(cfg, obs):
    r = obs.result
    return (r[0], r[1] if r[0] == 'exc' else 'data', len(obs.txs))


def shrink(cfg, choices, shape, letters, conn_letters, clause):
    """Replace choices by the default while the same clause still fails; returns minimal letter script."""
    cur = list(choices)

    def fails(ch):
        ctx = Ctx(ch)
        try:
            obs = run_single(cfg, ctx, letters, conn_letters, fp=False, prior=prior_of(cfg.get('prior', 'none')))
        except Exception:
            return False
        return any(c == clause for c, _ in monitor(cfg, obs))
    changed = True
    while changed:
        changed = False
        while cur and cur[-1] == 0:
            cur.pop()
        for i in range(len(cur)):
            if cur[i]:
                t = cur[:i] + [0] + cur[i + 1:]
                if fails(t):
                    cur = t
                    changed = True
    ctx = Ctx(cur)
    obs = run_single(cfg, ctx, letters, conn_letters, fp=False, prior=prior_of(cfg.get('prior', 'none')))
    names = [(nm, (letters if nm.startswith('tx') else conn_letters if nm.startswith('connect') else None))
             for nm, _, _ in ctx.trace]
    script = [opts[c] if opts else f'{nm}={c}' for (nm, opts), (_, _, c) in zip(names, ctx.trace)]
    return cur, script, obs


def cause_of(script):
    """Cause abstraction of a minimal failing script: the set of fault letters it needs (order and the number
    of plain timeouts before them depend on R and are dropped)."""
    c = sorted({x for x in script if x not in ('valid', 'drop', 'ok')})
    return '+'.join(c).replace('/', '_') if c else ('drop' if 'drop' in script else 'default')


def job(j):
    try:
        world.set_debug_logging(not j[0].get('default_logging'))
        return _job(j)
    finally:
        world.set_debug_logging(True)


def _job(j):
    cfg, mode, bound, letters, conn_letters, max_exec = j[:6]
    root = tuple(j[6]) if len(j) > 6 else ()
    st = Stats()
    vio = {}

    def run(ctx):
        return run_single(cfg, ctx, letters, conn_letters, prior=prior_of(cfg.get('prior', 'none')))

    def on_exec(ctx, obs):
        st.note(ctx, classify(cfg, obs))
        if len(st.samples) < 2 and any(ctx.choices):
            st.samples.append(dict(cfg=cfg, script=obs.letters, connects=[c[1] for c in obs.connects],
                                   result=obs.result[:3], tx_times=[round(t, 6) for t, _, _ in obs.txs],
                                   done=round(obs.t1, 6)))
        for clause, cause in monitor(cfg, obs):
            k = (clause,)
            vio.setdefault(k, []).append((ctx.choices, cause))

    if mode == 'product':
        n, capped = explore(run, depth=bound - len(root), on_exec=on_exec, max_exec=max_exec, root_prefix=root)
    else:
        n, capped = explore(run, deviations=bound, depth=3 * (cfg['R'] + 1), on_exec=on_exec, max_exec=max_exec)
    st.capped = capped
    # shrink + twice-failing rule
    out = []
    for (clause,), lst in vio.items():
        choices, cause = lst[0]
        mn, script, obs = shrink(cfg, choices, None, letters, conn_letters, clause)
        again = monitor(cfg, run_single(cfg, Ctx(mn), letters, conn_letters, fp=False, prior=prior_of(cfg.get('prior', 'none'))))
        cell = f"{cfg['transport']}/ka={int(cfg['ka'])}" + (f"/after:{cfg['prior']}" if cfg.get('prior', 'none') != 'none' else '') + \
            (f"/host={cfg['host']}" if cfg.get('host') else '') + \
            ('/drained' if cfg.get('drain') else '')
        key = f"{clause}/{cell}/{cause_of(script)}"
        if not any(c == clause for c, _ in again):
            key = f"{clause}/{cell}/order-dependent"
            cause = f'{cause}; ' + 'failed during exploration but not on a fresh replay: the outcome depends on earlier executions in the same process (state outside the objects under test leaks between executions)'
        out.append(dict(key=key, clause=clause, n=len(lst),
                        replay=dict(cfg=cfg, choices=mn, letters=letters, conn_letters=conn_letters),
                        detail=dict(script=script, cause=cause, result=obs.result[:3],
                                    tx_times=[round(t, 6) for t, _, _ in obs.txs], done=round(obs.t1, 6),
                                    R=cfg['R'], T=cfg['T'])))
    st.violations = out
    return st


def configs(tier):
    # (timeouts are given as int and as float: both are legal constructor arguments)
    grid = [(1, 0), (1, 1), (1, 2), (2, 1), (0.5, 2), (1.5, 1)] if tier == 'thorough' else [(1, 1), (1, 2), (0.5, 1)]
    for tr in ('udp', 'tcp'):
        for ka in (False, True):
            for (T, R) in grid:
                for cmd in (('read', 'write', 'aa55') if tier == 'thorough' else ('read',)):
                    if cmd == 'aa55' and tr == 'tcp':
                        continue
                    if cmd != 'read' and (T, R) != (1, 1):
                        continue
                    yield dict(transport=tr, ka=ka, T=T, R=R, cmd=cmd)


def depth_of(cfg, conn):
    return (cfg['R'] + 1) * (2 if len(conn) > 1 else 1)


def run(tier, seed, rep):
    # histories of several requests on one object under the full fault alphabet (mc/sessions.py)
    from .. import sessions
    _ses = sessions.explore_sessions(tier, seed, {'C04'}, light=False)
    rep.add_many([v for v in _ses.violations if v['prop'] == 'C04'])
    jobs = []
    for cfg in configs(tier):
        letters = letters_of(cfg['transport'])
        # rotate the non-default letters by the seed: changes exploration order only, never the set explored
        k = seed % (len(letters) - 1)
        letters = [letters[0]] + letters[1 + k:] + letters[1:1 + k]
        conn = CONNECT if cfg['transport'] == 'tcp' else ['ok']
        if tier == 'thorough':
            jobs.append((cfg, 'product', depth_of(cfg, ['ok']), letters, ['ok'], None))
            if cfg['transport'] == 'tcp':
                if cfg['R'] <= 1:
                    jobs.append((cfg, 'product', depth_of(cfg, conn), letters, conn, None))
                else:
                    jobs.append((cfg, 'deviations', 3, letters, conn, None))
        else:
            jobs.append((cfg, 'product', depth_of(cfg, ['ok']), letters, ['ok'], None))
            if cfg['transport'] == 'tcp':
                jobs.append((cfg, 'deviations', 2, letters, conn, None))
            else:
                jobs.append((dict(cfg, udp_connect=True), 'deviations', 2, letters, ['ok'], None))
    # the library's logging at its default level instead of DEBUG (the rest of the exploration runs with DEBUG enabled)
    for tr in ('udp', 'tcp'):
        for ka in (False, True):
            jobs.append((dict(transport=tr, ka=ka, T=1, R=1, cmd='read', default_logging=True), 'product', 2, letters_of(tr), ['ok'], None))
    # the inverter configured by name / by a non-canonical spelling of its address (what recvfrom() reports is the resolved
    # address, never the configured string)
    for tr in ('udp', 'tcp'):
        for ka in (False, True):
            for host in ('inverter.local', '10.0.2'):
                jobs.append((dict(transport=tr, ka=ka, T=1, R=1, cmd='read', host=host), 'product', 2, letters_of(tr), ['ok'], None))
    # answers cut off after every number of bytes 1..9, nothing following (lone fragments of every length)
    for tr in ('udp', 'tcp'):
        for ka in (False, True):
            jobs.append((dict(transport=tr, ka=ka, T=1, R=1, cmd='read'), 'product', 2,
                         [f'cut{n}' for n in range(1, 10)] + ['valid', 'drop'], ['ok'], None))
    # non-initial states
    for tr in ('udp', 'tcp'):
        for ka in (False, True):
            for prior in (PRIORS if tier == 'thorough' else ('success', 'rejected@.5T', 'late-answer', 'fragment+valid', 'timeout+rejected',
                                                              'drop+reconnect-refused', 'drop+reconnect-unreachable', 'drop+reconnect-hang', 'connect-unreachable',
                                                              'success+NEWLOOP', 'exhausted+NEWLOOP', 'rejected+NEWLOOP', 'NEWLOOP+success+NEWLOOP')):
                if prior == 'none' or (tr == 'udp' and 'connect' in prior):
                    continue
                cfg = dict(transport=tr, ka=ka, T=1, R=1, cmd='read', prior=prior)
                jobs.append((cfg, 'product', 2, letters_of(tr), ['ok'], None))
                if tier == 'thorough':
                    cfg = dict(transport=tr, ka=ka, T=1, R=2, cmd='read', prior=prior)
                    jobs.append((cfg, 'deviations', 2, letters_of(tr), CONNECT if tr == 'tcp' else ['ok'], None))
            # every single-letter earlier request (the whole alphabet), then the full product for the explored request
            for letter in letters_of(tr)[1:]:
                cfg = dict(transport=tr, ka=ka, T=1, R=1, cmd='read', prior='1:' + letter)
                jobs.append((cfg, 'product', 2, letters_of(tr), ['ok'], None))
                if any(x in letter for x in ('1.5T', 'T+e', '1.2T', '+fin', 'dup', '2x', 'invalid+')):
                    jobs.append((dict(cfg, drain=True), 'product', 2, letters_of(tr), ['ok'], None))
    # Modbus/TCP requests whose transmissions cross the wrap of the transaction counter
    for ka in (False, True):
        for start in (0xFFFB, 0xFFFC, 0xFFFD, 0xFFFE):      # (states the counter can really be in)
            cfg = dict(transport='tcp', ka=ka, T=1, R=2, cmd='read', tx_start=start)
            jobs.append((cfg, 'deviations', 2, alphabet('tcp'), ['ok'], None))
    # timeouts longer than the 5 s allowed for establishing a TCP connection (the two bounds are separate)
    for ka in (False, True):
        for (T, R) in ((8, 1), (6.5, 0)) + (((30, 2),) if tier == 'thorough' else ()):
            jobs.append((dict(transport='tcp', ka=ka, T=T, R=R, cmd='read'), 'deviations', 2, alphabet('tcp'), CONNECT, None))
    # R=3 with deviation bound
    for tr in ('udp', 'tcp'):
        for ka in (False, True):
            cfg = dict(transport=tr, ka=ka, T=1, R=3, cmd='read')
            letters = letters_of(tr)
            jobs.append((cfg, 'deviations', 3 if tier == 'thorough' else 2, letters,
                         CONNECT if tr == 'tcp' else ['ok'], None))
    if tier == 'thorough':
        # complete product for R=3 as well (20^4 scripts per configuration), split by the first letter
        for tr in ('udp', 'tcp'):
            for ka in (False, True):
                cfg = dict(transport=tr, ka=ka, T=1, R=3, cmd='read')
                for first in range(len(letters_of(tr))):
                    jobs.append((cfg, 'product', 4, letters_of(tr), ['ok'], None, (first,)))
    total = Stats()
    per_cfg = []
    for j, st in zip(jobs, pmap(job, jobs)):
        total.merge(st)
        per_cfg.append(dict(cfg=j[0], mode=j[1], bound=j[2], executions=st.executions, states=len(st.states),
                            outcomes={str(k): v for k, v in sorted(st.outcomes.items(), key=str)}))
    rep.add_many(total.violations)
    conf = None
    if tier == 'thorough':
        # binding the kernel model to reality: the same traces on real loopback sockets (warning only, never a verdict)
        # in a child process with a hard wall-clock limit: on real sockets there is no watchdog inside the loop, a
        # library that hangs would hang the check
        import multiprocessing as mp

        def _child(q):
            try:
                from .. import conform
                q.put(conform.run_all())
            except BaseException as e:  # noqa: BLE001
                q.put(f'{type(e).__name__}: {e}')
        q = mp.get_context('fork').Queue()
        pr = mp.get_context('fork').Process(target=_child, args=(q,), daemon=True)
        pr.start()
        try:
            got = q.get(timeout=240)
        except Exception:  # noqa: BLE001
            got = 'no result within 240 s of wall-clock time (a request on real sockets did not terminate)'
        if pr.is_alive():
            pr.kill()
        pr.join(5)
        if isinstance(got, tuple):
            n_c, agree, mism = got
            conf = dict(traces_replayed_on_real_loopback=n_c, agreeing_with_kernel_model=agree, persistent_mismatches=mism)
        else:
            conf = dict(error=got)
    cov = dict(session_histories=_ses.executions, session_states=len(_ses.states), session_choice_points=_ses.choice_points,
               states=len(total.states), transitions=len(total.edges), executions=total.executions,
               traces_validated_against_impl=total.executions, choice_points=total.choice_points,
               distinct_outcome_classes=len(total.outcomes), exhaustive=not total.capped,
               bound='product over all choice points (depth R+1 transmissions + connect outcomes) for R<=2; '
                     'deviation bound for R=3', max_depth=total.max_depth,
               alphabet=dict(udp=letters_of('udp'), tcp=letters_of('tcp'), connect=CONNECT),
               per_config=per_cfg, samples=total.samples[:6], kernel_conformance=conf,
               explanation='every explored trace is an execution of the real goodwe protocol objects on the real '
                           'CPython selector loop/transports; only sockets, selector and clock are modelled')
    return dict(level='model_checking', coverage=cov,
                assumptions=['CPython 3.12 selector event loop semantics', 'kernel model of mc/kernel.py',
                             f'timing ties resolved by named delays (eps={EPS_FRAC}*T)'])


def replay(r):
    if r.get('part') == 'session':
        from .. import sessions
        out = sessions.replay(r)
        out['violations'] = [m for m in out['violations'] if m[0] == 'C04']
        return out
    cfg = r['cfg']
    ctx = Ctx(r['choices'])
    obs = run_single(cfg, ctx, r['letters'], r['conn_letters'], fp=False, prior=prior_of(cfg.get('prior', 'none')))
    return dict(script=obs.letters, connects=obs.connects, result=obs.result[:3],
                tx_times=[t for t, _, _ in obs.txs], done=obs.t1, violations=monitor(cfg, obs))
