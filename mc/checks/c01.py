"""C01 - only validated response frames are ever delivered as results (DESIGN 3, C01)."""
from __future__ import annotations

import itertools
import struct

from .. import world, wire
from ..explore import pmap, h
from ..kernel import KLoop
from ..peer import PlanPeer, D0
from ..proto import make_protocol, _exec

gp = world.gp
ex = world.goodwe.exceptions
UNIT = 0xF7


# ------------------------------------------------------------------ commands

def make_cmd(framing, spec):
    """spec: ('read', reg, count) | ('write', reg, val) | ('multi', reg, nregs) | ('aa55', payload_hex, rtype_hex)
    -> (real command object, classifier description)"""
    k = spec[0]
    if framing == 'aa55':
        c = gp.Aa55ProtocolCommand(spec[1], spec[2])
        return c, dict(kind='aa55', rtype=bytes.fromhex(spec[2]))
    R, W, M = ((gp.ModbusRtuReadCommand, gp.ModbusRtuWriteCommand, gp.ModbusRtuWriteMultiCommand) if framing == 'rtu'
               else (gp.ModbusTcpReadCommand, gp.ModbusTcpWriteCommand, gp.ModbusTcpWriteMultiCommand))
    if k == 'read':
        return R(UNIT, spec[1], spec[2]), dict(kind='read', count=spec[2])
    if k == 'write':
        return W(UNIT, spec[1], spec[2]), dict(kind='write', reg=spec[1], value=spec[2])
    return M(UNIT, spec[1], bytes(2 * spec[2])), dict(kind='multi', reg=spec[1], count=spec[2])


def check_one(cmd, framing, desc, data, vio, spec, gen):
    """Run the real validator on `data`; compare with the statement's classifier."""
    try:
        r = cmd.validator(data)
        if r is True:
            out = 'accept'
        elif r is False:
            out = 'refuse'
        else:
            out = f'returned:{r!r}'
    except ex.PartialResponseException as e:
        out = 'partial'
        if e.length != len(data) or not e.expected > e.length:
            vio.append((f'partial-arithmetic/{framing}/{spec[0]}', 'partial(length, expected) inconsistent',
                        spec, data, f'len={len(data)} length={e.length} expected={e.expected}', gen))
    except ex.RequestRejectedException:
        out = 'rejected'
    except BaseException as e:  # noqa: BLE001
        out = f'raised:{type(e).__name__}'
    if out not in ('accept', 'refuse', 'partial', 'rejected'):
        vio.append((f'documented-outcomes/{framing}/{spec[0]}/{out}', 'validator outcome not documented', spec, data, out, gen))
    elif out == 'accept':
        cls = wire.classify_response(framing, desc, data)
        if cls != 'wellformed':
            vio.append((f'accepted-malformed/{framing}/{spec[0]}/{gen}', 'accepted a string that is not a well-formed answer',
                        spec, data, cls, gen))
    return out


# ------------------------------------------------------------------ generators

def canonical(framing, spec, fill=0x5A):
    k = spec[0]
    tx = b'\x00\x09'
    if framing == 'aa55':
        n = spec[3] if len(spec) > 3 else 6
        return wire.aa55_resp(spec[2] or '0186', bytes((fill + i) & 0xFF for i in range(n)))      # ('' = command without an expected type)
    if k == 'read':
        pl = bytes((fill + 3 * i) & 0xFF for i in range(2 * spec[2]))
        return wire.rtu_read_resp(UNIT, pl) if framing == 'rtu' else wire.tcp_read_resp(tx, UNIT, pl)
    fn, x = (6, spec[2]) if k == 'write' else (16, spec[2])
    return wire.rtu_write_resp(UNIT, fn, spec[1], x) if framing == 'rtu' else wire.tcp_write_resp(tx, UNIT, fn, spec[1], x)


def gen_mutations(framing, spec):
    """every prefix and every single-bit flip of the canonical valid frame (plus the frame itself)."""
    f = canonical(framing, spec)
    yield 'canonical', f
    for i in range(len(f)):
        yield 'prefix', f[:i]
    for i in range(len(f) * 8):
        x = bytearray(f)
        x[i // 8] ^= 1 << (i % 8)
        yield 'bitflip', bytes(x)
    yield 'extended', f + b'\x00'
    yield 'extended', f + f
    # the valid frame with stray bytes in front of it, and with its first bytes missing (a frame that is well-formed only
    # after re-alignment is not well-formed)
    for stray in (b'\x00', b'\xff', b'\xaa', b'\x55', b'\x00\x00', b'\xaa\x55', f[:2], f[:3], f[:4], f[:6], bytes(7), f[-2:], b'\x0d\x0a'):
        yield 'prefixed', stray + f
    for i in range(1, min(8, len(f))):
        yield 'head-missing', f[i:]


def crc_variants(body, header):
    right = wire.crc_bytes(body)
    return [right, wire.crc_bytes(header + body), right[::-1], bytes([(right[0] + 1) & 0xFF, right[1]]), b'\x00\x00']


def gen_grammar(framing, spec):
    k = spec[0]
    if framing == 'aa55':
        want = bytes.fromhex(spec[2]) or b'\x01\x86'
        for hdr in (b'\xaa\x55\x7f\xc0', b'\xaa\x55\xc0\x7f', b'\x00\x00\x00\x00'):
            for rt in (want, b'\x01\x86', b'\x01\x82', b'\x01\xff', bytes([want[0] | 0x80, want[1]]), bytes([want[1], want[0]])):
                for n in (0, 1, 2, 40, 140, 255):
                    for fill in (0x00, 0xFF, 0x37):
                        for lb in {n, (n - 1) & 0xFF, (n + 1) & 0xFF, 0, 255}:
                            for present in {n, max(n - 1, 0), n + 1, 0}:
                                body = hdr + rt + bytes([lb]) + bytes([fill]) * present
                                s = wire.sum16(body)
                                for cs in (s, (s + 1) & 0xFFFF, ((s & 0xFF) << 8) | (s >> 8), 0, s & 0x7FFF, (s - 0x10000) & 0xFFFF):
                                    for trail in (b'', b'\x00', b'\x00\x00'):
                                        yield 'grammar', body + struct.pack('>H', cs) + trail
        return
    headers = (b'\xaa\x55', b'\x00\x00', b'\x55\xaa') if framing == 'rtu' else \
        (b'\x00\x09\x00\x00', b'\x00\x00\x00\x00', b'\x00\x09\x00\x01')
    c = spec[2] if k == 'read' else 1
    for hdr in headers:
        for unit in (0xF7, 0x7F, 0x00):
            for fn in (3, 6, 16, 0x83, 0x86, 0x90, 4, 0, 0xFF):
                if fn == 3 or fn not in (6, 16):
                    bcs = {(2 * c) & 0xFF, (2 * c - 2) & 0xFF, (2 * c + 2) & 0xFF, (2 * c + 1) & 0xFF, (2 * c - 1) & 0xFF,
                           (2 * c + 3) & 0xFF, c & 0xFF, (4 * c) & 0xFF, 0, 255}
                    for bc in bcs:
                        for delta in (0, -1, 1, 2, None):
                            present = max(bc + delta, 0) if delta is not None else 0
                            body = bytes([unit, fn, bc]) + bytes((7 * i + 1) & 0xFF for i in range(present))
                            yield from _finish(framing, hdr, body)
                else:
                    reg, val = (spec[1], spec[2]) if k != 'read' else (0x1234, 0x0001)
                    regs = {reg, (reg + 1) & 0xFFFF, (reg - 1) & 0xFFFF, ((reg & 0xFF) << 8) | (reg >> 8)}
                    v = val & 0xFFFF
                    vals = {v, (v + 1) & 0xFFFF, (v - 1) & 0xFFFF, (-v) & 0xFFFF, ((v & 0xFF) << 8) | (v >> 8)}
                    for rg in regs:
                        for vv in vals:
                            for cut in (0, 1, 2):
                                body = (bytes([unit, fn]) + struct.pack('>HH', rg, vv))
                                body = body[:len(body) - cut]
                                yield from _finish(framing, hdr, body)


def _finish(framing, hdr, body):
    if framing == 'rtu':
        for crc in crc_variants(body, hdr):
            for trail in (b'', b'\x00', b'\x01\x02', bytes(8)):
                yield 'grammar', hdr + body + crc + trail
    else:
        for ln in (len(body), len(body) + 1, 0):
            for trail in (b'', b'\x00', bytes(8)):
                yield 'grammar', hdr + struct.pack('>H', ln) + body + trail


def gen_small_scope(framing, spec, maxlen):
    c2 = (2 * spec[2]) & 0xFF if spec[0] == 'read' else 4
    alpha = sorted({0x00, 0x03, 0x06, 0x10, 0x83, 0xAA, 0x55, 0xF7, 0x7F, c2, 0x01, 0x86})[:10] if framing != 'aa55' \
        else [0x00, 0x01, 0x02, 0x86, 0xAA, 0x55, 0x7F, 0xC0, 0x09, 0xFF]
    for n in range(0, 3):
        for t in itertools.product(range(256), repeat=n):
            yield 'small256', bytes(t)
    for n in range(3, maxlen + 1):
        for t in itertools.product(alpha, repeat=n):
            yield 'small10', bytes(t)


def specs_for(framing, tier):
    if framing == 'aa55':
        return [('aa55', '010600', '0186'), ('aa55', '010200', '0182'), ('aa55', '010900', '0189'),
                ('aa55', '011a03070104', '019A'), ('aa55', '02390507010100ff', '02B9'), ('aa55', '03590100', '03D9'),
                ('aa55', '010600', '')]       # (the validator supports commands that expect no particular response type)
    counts = list(range(1, 126)) if tier == 'thorough' else [1, 2, 61, 124, 125]
    out = [('read', 0x891C, c) for c in counts]
    regs = [0, 1, 0x7FFF, 0x8000, 0xFFFF, 47511] if tier == 'thorough' else [0, 0x8000, 47511]
    vals = [-32768, -1, 0, 1, 32767]
    out += [('write', r, v) for r in regs for v in vals]
    out += [('multi', 47515, n) for n in (1, 2, 6, 123)]
    return out


def job(j):
    framing, spec, gens, maxlen = j
    cmd, desc = make_cmd(framing, spec)
    vio = []
    n = 0
    outs = {}
    nontrivial = set()
    sample = None
    for gname in gens:
        if gname == 'mut':
            it = gen_mutations(framing, spec)
        elif gname == 'grammar':
            it = gen_grammar(framing, spec)
        else:
            it = gen_small_scope(framing, spec, maxlen)
        for gen, data in it:
            o = check_one(cmd, framing, desc, data, vio, spec, gen)
            n += 1
            outs[(gen, o)] = outs.get((gen, o), 0) + 1
            if o != 'refuse':
                nontrivial.add(h(data))
                if sample is None and o == 'partial':
                    sample = dict(framing=framing, command=list(spec), bytes=data.hex(), outcome=o)
    out = {}
    for key, clause, sp, data, cause, gen in vio:
        out.setdefault(key, []).append(dict(key=key, clause=clause,
                                            replay=dict(part='E', framing=framing, spec=list(sp), data=data.hex()),
                                            detail=dict(cause=cause, generator=gen)))
    res = []
    for key, lst in out.items():
        v = lst[0]
        v['n'] = len(lst)
        res.append(v)
    return n, outs, res, len(nontrivial), sample


# ------------------------------------------------------------------ transport part

def transport_cases(framing):
    spec = ('aa55', '010600', '0186', 6) if framing == 'aa55' else ('read', 0x891C, 3)
    f = canonical(framing, spec)
    yield 'garbage', bytes(range(1, 14))
    yield 'empty-ish', b'\xaa'
    for cut in (1, 2, 3):
        yield f'truncated-{cut}', f[:-cut]
    yield 'flip-first-payload-bit', f[:9] + bytes([f[9] ^ 1]) + f[10:]
    yield 'flip-last-bit', f[:-1] + bytes([f[-1] ^ 0x80])
    # a well-formed frame that arrives in two pieces: what is delivered is the frame, not one of the pieces
    h0 = dict(rtu=5, tcp=9, aa55=9)[framing]
    for k in sorted({h0, h0 + 1, max(h0, len(f) // 2 + 1), len(f) - 1}):
        yield f'valid-in-two-pieces@{k}', (f[:k], f[k:])
        # ... and a frame that is NOT well-formed once its two pieces are put together (remainder of the announced
        # length, but corrupted / with a broken checksum / garbage)
        rem = f[k:]
        yield f'corrupt-remainder@{k}', (f[:k], bytes([rem[0] ^ 0x01]) + rem[1:])
        yield f'bad-checksum-remainder@{k}', (f[:k], rem[:-1] + bytes([rem[-1] ^ 0x80]))
        yield f'garbage-remainder@{k}', (f[:k], bytes((37 * i + 11) & 0xFF for i in range(len(rem))))
    if framing != 'aa55':
        b = 4 if framing == 'rtu' else 8
        yield 'wrong-count', f[:b] + bytes([f[b] + 2]) + f[b + 1:] + b'\0\0'
        yield 'foreign-function', canonical(framing, ('write', 0x891C, 3))
    else:
        yield 'other-type', wire.aa55_resp('0182', f[7:-2])
        yield 'too-long', f + b'\x00'


FACTORY_OPS = (('read', 47000, 1), ('write', 47000, 1), ('multi', 47000, 1), ('read', 47000, 3), ('write', 47000, 3), ('read', 47001, 1),
               ('write', 47000, -1), ('read', 1, 1), ('write', 1, 1))


def run_factory_pair(framing, a, b, ka):
    """Two commands built by ONE protocol object's factory methods (read_command / write_command /
    write_multi_command) whose arguments collide (same register; count == value == register count), executed one after the
    other against an inverter that answers honestly to whatever arrives on the wire.  Whatever the second call returns as
    its successful result is a well-formed answer to the operation that CALL stands for."""
    world.reset()

    def honest(k, req, now):
        try:
            rq = wire.parse_tcp_request(req) if framing == 'tcp' else wire.parse_rtu_request(req)
        except wire.BadRequest:
            return []
        fn = rq['fn']
        if fn == 3:
            pdu = bytes([3, 2 * rq['count']]) + bytes((7 * i + 1) & 0xFF for i in range(2 * rq['count']))
        elif fn == 6:
            pdu = bytes([6]) + struct.pack('>HH', rq['reg'], rq['value'])
        else:
            pdu = bytes([16]) + struct.pack('>HH', rq['reg'], rq['count'])
        f = wire.mbap(req[:2], rq['unit'], pdu) if framing == 'tcp' else wire.rtu_frame(rq['unit'], pdu)
        return [(D0, ('data', f))]
    peer = PlanPeer(honest)
    loop = KLoop(peer)
    p = make_protocol('tcp' if framing == 'tcp' else 'udp', 1, 0, ka)

    def build(op):
        kind, reg, n = op
        if kind == 'read':
            return p.read_command(reg, n), dict(kind='read', count=n)
        if kind == 'write':
            return p.write_command(reg, n), dict(kind='write', reg=reg, value=n)
        return p.write_multi_command(reg, bytes(2 * abs(n))), dict(kind='multi', reg=reg, count=abs(n))
    vio = []
    for i, op in enumerate((a, b)):
        cmd, spec = build(op)
        st, res = loop.run(_exec(cmd, p))
        if st == 'hang':
            vio.append(('validator-terminates', f'{op}'))
            break
        if res[0] == 'ok':
            cls = wire.classify_response(framing, spec, bytes(res[1]))
            if cls != 'wellformed':
                vio.append(('delivered-only-wellformed/commands-of-one-object',
                            f'{op[0]}({op[1]}, {op[2]}) {"after " + a[0] + str(a[1:]) if i else "first"} completed with {bytes(res[1]).hex()[:40]} '
                            f'- for that call the frame is {cls}'))
    return vio


def run_exception_answer(framing, kind, code, ka):
    """The inverter answers a read / write / write-multi request with a Modbus exception frame (any code): the request
    never completes successfully with that frame - it is not a well-formed answer to any request."""
    world.reset()

    def plan(k, req, now):
        try:
            rq = wire.parse_tcp_request(req) if framing == 'tcp' else wire.parse_rtu_request(req)
        except wire.BadRequest:
            return []
        pdu = bytes([rq['fn'] | 0x80, code])
        f = wire.mbap(req[:2], rq['unit'], pdu) if framing == 'tcp' else wire.rtu_frame(rq['unit'], pdu)
        return [(D0, ('data', f))]
    peer = PlanPeer(plan)
    loop = KLoop(peer)
    p = make_protocol('tcp' if framing == 'tcp' else 'udp', 1, 0, ka)
    cmd, spec = {'read': (lambda: (p.read_command(0x891C, 3), dict(kind='read', count=3))),
                 'write': (lambda: (p.write_command(47000, 5), dict(kind='write', reg=47000, value=5))),
                 'multi': (lambda: (p.write_multi_command(47515, bytes(8)), dict(kind='multi', reg=47515, count=4)))}[kind]()
    st, res = loop.run(_exec(cmd, p))
    if st == 'hang':
        return [('validator-terminates', f'{kind} answered by exception {code}')]
    if res[0] == 'ok' and wire.classify_response(framing, spec, bytes(res[1])) != 'wellformed':
        return [('delivered-only-wellformed/exception-frame', f'{kind} request answered by exception code {code} completed with {bytes(res[1]).hex()}')]
    return []


PRIOR_KINDS = ('none', 'typed-same', 'typed-other', 'raw-same-bytes', 'raw-other-bytes')


def run_transport(framing, name, data, ka, prior='none'):
    """The explored request is the typed command; `prior` is an earlier request on the same protocol object that was
    answered by a well-formed frame: the same typed command, another typed command, or a caller-supplied raw command
    (Inverter.send_command style: permissive validator) with the very same / other request bytes."""
    world.reset()
    spec = ('aa55', '010600', '0186', 6) if framing == 'aa55' else ('read', 0x891C, 3)
    good = canonical(framing, spec)
    state = dict(prior=prior != 'none')

    sent_now = []

    def plan(k, req, now):
        d = good if state['prior'] else data
        if state['prior'] and prior.startswith('typed+stray-head@'):
            # ... and while the object is idle afterwards, the head of an answer nobody asked for arrives (its announced
            # length is more than what arrives)
            f2 = canonical(framing, spec, fill=0x11)
            return [(D0, ('data', (req[:2] + good[2:]) if framing == 'tcp' else good)), (0.2, ('data', f2[:int(prior.split('@')[1])]))]
        if not state['prior']:
            sent_now.append(d)
        if isinstance(d, tuple):
            first = req[:2] + d[0][2:] if framing == 'tcp' else d[0]
            return [(D0, ('data', first)), (0.3, ('data', d[1]))]
        if framing == 'tcp' and len(d) >= 2:
            return [(D0, ('data', req[:2] + d[2:]))]
        return [(D0, ('data', d))]
    peer = PlanPeer(plan)
    loop = KLoop(peer)
    p = make_protocol('tcp' if framing == 'tcp' else 'udp', 1, 0, ka)

    def typed(other=False):
        if framing == 'aa55':
            return gp.Aa55ProtocolCommand("010600" if not other else "010200", "0186")
        return p.read_command(0x891C if not other else 0x9088, 3)
    if prior != 'none':
        if prior.startswith('typed'):
            pc = typed(prior == 'typed-other')
        else:
            raw = typed(prior == 'raw-other-bytes').request_bytes() if hasattr(typed(), 'request_bytes') else typed().request
            pc = gp.ProtocolCommand(raw, lambda x: True)
        loop.run(_exec(pc, p))
        if prior.startswith('typed+stray-head@'):
            loop.settle(0.5)
        state['prior'] = False
    cmd = typed()
    st, res = loop.run(_exec(cmd, p))
    if st == 'hang':
        return [('terminates', str(res))], res
    vio = []
    if res[0] == 'ok':
        desc = dict(kind='aa55', rtype=b'\x01\x86') if framing == 'aa55' else dict(kind='read', count=3)
        if wire.classify_response(framing, desc, res[1]) != 'wellformed':
            vio.append(('delivered-malformed', f'{name}: execute() returned {res[1].hex()}'))
        if prior.startswith('typed+stray-head@') and sent_now:
            # the byte string that arrived in answer to THIS request is what was accepted (a truncated or garbage string is
            # not made acceptable by bytes that were lying around)
            d = sent_now[-1]
            whole = b''.join(d) if isinstance(d, tuple) else d
            body = res[1][2:] if framing == 'tcp' else res[1]
            if body != (whole[2:] if framing == 'tcp' else whole):
                vio.append(('accepted-string-is-what-arrived', f'{name}: the inverter answered {whole.hex()}, execute() returned {res[1].hex()}'))
    # (whether a split frame IS delivered is C07's subject; here only: what is delivered is a well-formed frame)
    return vio, res


def cross_command_stage(rep):
    """The same byte strings presented to DIFFERENT commands in one process, in both orders and twice: a verdict
    must depend on nothing but (command, bytes) - in particular not on what was validated before."""
    n = 0
    for framing in ('rtu', 'tcp', 'aa55'):
        specs = specs_for(framing, 'quick')[:12] if framing != 'aa55' else specs_for(framing, 'quick')
        cmds = [make_cmd(framing, sp) for sp in specs]
        frames = [canonical(framing, sp) for sp in specs]
        for rnd in range(2):
            order = list(range(len(specs))) if rnd == 0 else list(range(len(specs)))[::-1]
            for i in order:
                for j in order:
                    vio = []
                    o = check_one(cmds[i][0], framing, cmds[i][1], frames[j], vio, specs[i], 'cross-command')
                    n += 1
                    want_accept = wire.classify_response(framing, cmds[i][1], frames[j]) == 'wellformed'
                    if i == j and o != 'accept':
                        rep.add(f'own-answer-accepted-after-others/{framing}/{specs[i][0]}', 'verdict depends on earlier validations',
                                dict(part='E', framing=framing, spec=list(specs[i]), data=frames[j].hex()), dict(outcome=o, round=rnd))
                    for key, clause, sp, data, cause, gen in vio:
                        rep.add(key, clause, dict(part='E', framing=framing, spec=list(sp), data=data.hex()),
                                dict(cause=cause, generator=gen, note='answer to another command presented in the same process'))
    return n


def concurrent_stage(rep):
    """Two overlapping requests with DIFFERENT shapes on one protocol object; the peer answers every transmission with
    a frame that is well-formed for its own request, for the OTHER caller's request, or not at all (exhaustive over the
    first four transmissions, start offsets, transports, keep-alive).  Whatever a caller gets back must be a well-formed
    answer to that very request."""
    import asyncio
    import itertools
    n = 0
    counts = (10, 5)
    for tr in ('udp', 'tcp'):
        framing = 'tcp' if tr == 'tcp' else 'rtu'
        for ka in (False, True):
            for off in (0.0, 0.3):
                for script in itertools.product(('own', 'other', 'drop'), repeat=4):
                    world.reset()

                    def plan(k, req, now):
                        letter = script[k] if k < len(script) else 'own'
                        if letter == 'drop':
                            return []
                        rq = wire.parse_request(req)
                        c = rq['count'] if letter == 'own' else (counts[1] if rq['count'] == counts[0] else counts[0])
                        pl = bytes((7 * i + c) & 0xFF for i in range(2 * c))
                        f = wire.tcp_read_resp(req[:2], 0xF7, pl) if framing == 'tcp' else wire.rtu_read_resp(0xF7, pl)
                        return [(D0, ('data', f))]
                    peer = PlanPeer(plan)
                    loop = KLoop(peer)
                    p = make_protocol(tr, 1, 1, ka)
                    out = {}

                    async def caller(i):
                        if i and off:
                            await asyncio.sleep(off)
                        out[i] = await _exec(p.read_command(0x891C + 100 * i, counts[i]), p)

                    async def main():
                        await asyncio.gather(caller(0), caller(1))
                    st, _ = loop.run(main())
                    n += 1
                    for i in (0, 1):
                        r = out.get(i)
                        if r and r[0] == 'ok' and wire.classify_response(framing, dict(kind='read', count=counts[i]), r[1]) != 'wellformed':
                            rep.add(f'delivered-malformed/{framing}/overlapping-requests', 'a caller got a frame that does not answer its own request',
                                    dict(part='C', transport=tr, ka=ka, offset=off, script=list(script)),
                                    dict(cause=f'caller {i} (count {counts[i]}) completed with {len(r[1])} bytes', script=list(script)))
    return n


def run(tier, seed, rep):
    # histories of several requests on one object (mc/sessions.py): a delivered frame answers the request it is delivered to
    from .. import sessions
    _ses = sessions.explore_sessions(tier, seed, {'C01'}, light=True)
    rep.add_many([v for v in _ses.violations if v['prop'] == 'C01'])
    ncross = cross_command_stage(rep) + concurrent_stage(rep)
    jobs = []
    for framing in ('rtu', 'tcp', 'aa55'):
        specs = specs_for(framing, tier)
        for i, spec in enumerate(specs):
            gens = ['mut']
            # the grammar product and the small-scope strings do not depend on most of the command: run them for
            # a seed-rotated subset in the quick tier, for every command in the thorough tier
            heavy = tier == 'thorough' or (i + seed) % max(1, len(specs) // 3) == 0
            if heavy:
                gens.append('grammar')
            if (tier == 'thorough' and (spec[0] != 'read' or spec[2] in (1, 2, 61, 125))) or \
                    (tier == 'quick' and spec in (('read', 0x891C, 2), ('write', 0, -1), ('aa55', '010600', '0186'))):
                gens.append('small')
            jobs.append((framing, spec, gens, 6 if tier == 'thorough' else 5))
    total = 0
    outs = {}
    nontriv = 0
    samples = []
    for j, (n, o, res, nt, sample) in zip(jobs, pmap(job, jobs)):
        total += n
        nontriv += nt
        for k, v in o.items():
            outs[(j[0],) + k] = outs.get((j[0],) + k, 0) + v
        rep.add_many(res)
        if sample and len(samples) < 4:
            samples.append(sample)
    nfp = 0
    for framing in ('rtu', 'tcp'):
        for a, b in itertools.permutations(FACTORY_OPS, 2):
            for ka in (False, True):
                nfp += 1
                for clause, cause in run_factory_pair(framing, a, b, ka):
                    rep.add(f'{clause}/{framing}/{b[0]}-after-{a[0]}', clause, dict(part='F', framing=framing, a=list(a), b=list(b), ka=ka), dict(cause=cause))
    for framing in ('rtu', 'tcp'):
        for kind in ('read', 'write', 'multi'):
            for code in list(range(0, 16)) + [0x7F, 0x80, 0x85, 0xFF]:
                for ka in (False, True):
                    nfp += 1
                    for clause, cause in run_exception_answer(framing, kind, code, ka):
                        rep.add(f'{clause}/{framing}/{kind}', clause, dict(part='X', framing=framing, kind=kind, code=code, ka=ka), dict(cause=cause))
    nt = 0
    # a stray head arrived while idle; the request is then answered by exactly the number of bytes that head was missing
    for framing in ('rtu', 'tcp', 'aa55'):
        spec_ = ('aa55', '010600', '0186', 6) if framing == 'aa55' else ('read', 0x891C, 3)
        f2, f3 = canonical(framing, spec_, fill=0x11), canonical(framing, spec_, fill=0x22)
        h0 = dict(rtu=5, tcp=9, aa55=9)[framing]
        for k0 in sorted({h0, h0 + 1, h0 + 3, len(f2) - 3}):
            glued = f2[:k0] + f3[k0:]
            if framing == 'rtu':
                glued = glued[:-2] + wire.crc_bytes(glued[2:-2])
            elif framing == 'aa55':
                glued = glued[:-2] + wire.sum16(glued[:-2]).to_bytes(2, 'big')
            cases_ = [('tail-of-that-answer', f2[k0:]), ('tail-of-another-answer', f3[k0:]), ('tail-with-fitting-checksum', glued[k0:]),
                      ('garbage-of-that-length', bytes((37 * i + 11) & 0xFF for i in range(len(f2) - k0))), ('ff-of-that-length', b'\xff' * (len(f2) - k0))]
            for name, data in cases_:
                for ka in (False, True):
                    prior = f'typed+stray-head@{k0}'
                    vio, res = run_transport(framing, name, data, ka, prior)
                    nt += 1
                    for clause, cause in vio:
                        rep.add(f'{clause}/{framing}/{name}/after:typed+stray-head', clause,
                                dict(part='K', framing=framing, name=name, ka=ka, prior=prior, data=data.hex()),
                                dict(cause=cause, earlier_request=prior))
    for framing in ('rtu', 'tcp', 'aa55'):
        for name, data in transport_cases(framing):
            for ka in (False, True):
                for prior in PRIOR_KINDS:
                    vio, res = run_transport(framing, name, data, ka, prior)
                    nt += 1
                    for clause, cause in vio:
                        rep.add(f'{clause}/{framing}/{name}' + (f'/after:{prior}' if prior != 'none' else ''), clause,
                                dict(part='K', framing=framing, name=name, ka=ka, prior=prior,
                                     data='|'.join(x.hex() for x in data) if isinstance(data, tuple) else data.hex()),
                                dict(cause=cause, earlier_request=prior))
    cov = dict(factory_command_pairs=nfp, session_histories=_ses.executions, evaluations=total + nt + ncross, distinct_nontrivial=nontriv, cross_command_evaluations=ncross,
               rule='strings = every prefix + every single-bit flip of every canonical frame, field-grammar product '
                    '(header x unit x function x byte count x bytes present x checksum variant x trailing; echoed '
                    'register/value variants for writes; AA55 length/type/checksum variants), all strings of length<=2 '
                    'and of length<=6 over a 10-byte alphabet of the constants the validators compare against; '
                    'non-trivial = distinct strings the validator did not plainly refuse (accept / partial / rejected)',
               validator_outcomes={str(k): v for k, v in sorted(outs.items(), key=str)},
               transport_executions=nt, commands=len(jobs), exhaustive=True, samples=samples)
    return dict(level='exploration', coverage=cov,
                assumptions=['classifier mc/wire.classify_response implements exactly the clauses of the statement',
                             'long random garbage is not enumerated: the validators read only len, <=8 fixed positions '
                             'and the checksum span, all of which the grammar varies'])


def replay(r):
    if r['part'] == 'session':
        from .. import sessions
        out = sessions.replay(r)
        out['violations'] = [m for m in out['violations'] if m[0] == 'C01']
        return out
    if r['part'] == 'X':
        return dict(violations=run_exception_answer(r['framing'], r['kind'], r['code'], r['ka']))
    if r['part'] == 'F':
        return dict(violations=run_factory_pair(r['framing'], tuple(r['a']), tuple(r['b']), r['ka']))
    if r['part'] == 'C':
        from ..findings import Report
        rp = Report('C01')
        concurrent_stage(rp)
        return dict(violations=sorted(rp.by_key))
    if r['part'] == 'E':
        spec = tuple(r['spec'])
        cmd, desc = make_cmd(r['framing'], spec)
        vio = []
        o = check_one(cmd, r['framing'], desc, bytes.fromhex(r['data']), vio, spec, 'replay')
        return dict(outcome=o, classifier=wire.classify_response(r['framing'], desc, bytes.fromhex(r['data'])),
                    violations=[v[:2] + (v[4],) for v in vio])
    data = tuple(bytes.fromhex(x) for x in r['data'].split('|')) if '|' in r['data'] else bytes.fromhex(r['data'])
    vio, res = run_transport(r['framing'], r['name'], data, r['ka'], r.get('prior', 'none'))
    return dict(result=[str(x) for x in res[:3]], violations=vio)
