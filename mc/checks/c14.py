"""C14 - sensors are decoded only from registers that were actually fetched (DESIGN 3, C14)."""
from __future__ import annotations

import sys

from .. import world, refdec
from ..configs import et_configs, dt_configs, make_rig, classes_of, serial_for
from ..explore import pmap, h

gp = world.gp
Inverter = world.goodwe.Inverter


class Probe:
    """Wraps ProtocolResponse.read and Inverter._map_response from outside (no repo change)."""

    def __enter__(self):
        self.short = []     # (sensor id, position, requested, returned, window)
        self.static = []    # (sensor id, first address, count, sensor offset, documented size)
        self.reads = 0
        self.orig_read = gp.ProtocolResponse.read
        probe = self

        def read(resp, size):
            pos = resp._bytes.tell()
            b = probe.orig_read(resp, size)
            probe.reads += 1
            if len(b) != size:
                f = sys._getframe(1)
                sid = None
                while f is not None:
                    if f.f_code.co_name == '_map_response':
                        sid = getattr(f.f_locals.get('sensor'), 'id_', None)
                        break
                    f = f.f_back
                cmd = resp.command
                probe.short.append((sid, pos, size, len(b), (getattr(cmd, 'first_address', None), getattr(cmd, 'value', None))))
            return b

        def mapper(response, sensors, *more, **kw):
            # (an observer: world.wrap_method calls the original afterwards, whatever kind of method it has become)
            cmd = response.command
            first, count = getattr(cmd, 'first_address', None), getattr(cmd, 'value', None)
            if first is not None and count is not None and type(cmd).__name__.startswith('Modbus'):
                for s in sensors:
                    n = refdec.size_of(s)
                    if n and type(s).__name__ not in ('Calculated', 'EnumCalculated'):
                        lo = s.offset
                        hi = s.offset + (n + 1) // 2 - 1
                        if lo < first or hi > first + count - 1:
                            probe.static.append((s.id_, first, count, s.offset, n))
                        if type(s).__name__ == 'EnumBitmap22':
                            pass
        gp.ProtocolResponse.read = read
        self.restore_map = world.wrap_method(Inverter, '_map_response', mapper)
        return self

    def __exit__(self, *a):
        gp.ProtocolResponse.read = self.orig_read
        self.restore_map()


def _known():
    from ..findings import Report
    global _KNOWN
    try:
        return _KNOWN
    except NameError:
        _KNOWN = set(Report('C14').known)
        return _KNOWN


def run_config(cfg, transport='udp'):
    keep = False
    if cfg.get('first_other'):
        # another object (its own inverter: other model, other rated power) is created, detects its model and polls before
        # this object exists - what one object learned about its model must not reach the sensor tables of the next
        world.reset()
        r0 = make_rig(cfg['first_other'], transport, keep_world=True)
        if r0.call(r0.inv.read_device_info)[0] == 'ok':
            r0.call(r0.inv.read_runtime_data)
        keep = True
    r = make_rig({k: v for k, v in cfg.items() if k != 'first_other'}, transport, keep_world=keep)
    inv = r.inv
    vio = []
    di = r.call(inv.read_device_info)
    if di[0] != 'ok':
        return [], 0, ('device-info', di[0])
    red = cfg.get('redetect')
    if red:
        # the model is detected a second time on the same object: the inverter does not answer (detection fails), answers
        # from the k-th request on only, or answers as before - with a poll before it or not
        if red.startswith('poll+'):
            r.call(inv.read_runtime_data)
        if red.endswith('silent'):
            r.dev.silent = True
            r.call(inv.read_device_info)
            r.dev.silent = False
        elif red.endswith('lost-first'):
            r.dev.drop_at = {len(r.dev.log)}
            r.call(inv.read_device_info)
            r.dev.drop_at = set()
        else:
            r.call(inv.read_device_info)
    with Probe() as p:
        outs = [r.call(inv.read_runtime_data)[0] for _ in range(2)]
    for sid, pos, size, got, win in p.short:
        vio.append((f'reads-inside-answer/{cfg["family"]}/{sid}',
                    f'{sid}: read {size} bytes at payload position {pos}, got {got} (window {win[0]}+{win[1]} registers)'))
    for sid, first, count, off, n in p.static:
        vio.append((f'sensor-inside-window/{cfg["family"]}/{sid}',
                    f'{sid}: registers {off}..{off + (n + 1) // 2 - 1} outside fetched window {first}..{first + count - 1}'))
    dyn = {v[0].split('/')[-1] for v in vio if v[0].startswith('reads')}
    sta = {v[0].split('/')[-1] for v in vio if v[0].startswith('sensor-inside')}
    if dyn != sta:
        vio.append((f'instrumentation-agrees/{cfg["family"]}', f'dynamic {sorted(dyn)} vs static {sorted(sta)}'))
    return vio, p.reads, tuple(outs)


def job(cfgs):
    out = {}
    n = reads = 0
    states = set()
    for cfg, transport in cfgs:
        vio, nr, oc = run_config(cfg, transport)
        n += 1
        reads += nr
        fo = cfg.get('first_other')
        states.add(h((cfg['family'], sorted(classes_of(serial_for(cfg['tag']))), cfg['power'], cfg['refused'],
                      cfg['battery_mode'], oc, (sorted(classes_of(serial_for(fo['tag']))), fo['power']) if fo else None)))
        for key, cause in vio:
            if cfg.get('redetect') and ('C14', key) not in _known():
                # (a recorded finding is identified by its sensor and call site, whatever the history)
                key += '/after-second-detection:' + cfg['redetect']
            if cfg.get('first_other') and ('C14', key) not in _known():
                key += '/another-object-detected-first'
            out.setdefault(key, []).append(dict(key=key, clause=key.split('/')[0],
                                                replay=dict(cfg=cfg, transport=transport), detail=dict(cause=cause)))
    res = []
    for key, lst in out.items():
        lst[0]['n'] = len(lst)
        res.append(lst[0])
    return n, reads, res, states


def job_dyn(j):
    """capabilities changing between calls (fallback paths taken on later polls)"""
    import itertools
    from .c15 import run_dynamic, CHANGES
    cfg, depth = j
    out = {}
    n = 0
    for k in range(1, depth + 1):
        for changes in itertools.product(CHANGES, repeat=k):
            _, _, shorts = run_dynamic(cfg, changes, probe_reads=True)
            n += 1
            for sid, step in shorts:
                key = f'reads-inside-answer/{cfg["family"]}/{sid}'
                out.setdefault(key, []).append(dict(key=key, clause='reads-inside-answer',
                                                    replay=dict(cfg=cfg, transport='udp', changes=list(changes)),
                                                    detail=dict(cause=f'{sid}: short read on the poll after {step}', changes=list(changes))))
    res = []
    for key, lst in out.items():
        lst.sort(key=lambda v: len(v['replay']['changes']))
        lst[0]['n'] = len(lst)
        res.append(lst[0])
    return n, res


def job_busy(j):
    """After the object settled on its fallbacks (first polls), ONE request of a later poll is answered with a Modbus
    exception other than ILLEGAL DATA ADDRESS (busy, failure, ...) - for every request position and three codes.
    Whatever the poll then returns is decoded from fetched registers only."""
    cfg, = j
    out = {}
    n = 0
    base = make_rig(cfg, 'udp')
    base.call(base.inv.read_device_info)
    base.call(base.inv.read_runtime_data)
    base.call(base.inv.read_runtime_data)
    l0 = len(base.dev.log)
    base.call(base.inv.read_runtime_data)
    nreq = len(base.dev.log) - l0
    for k in range(nreq):
        for code in (4, 6, 1):
            r = make_rig(cfg, 'udp')
            r.call(r.inv.read_device_info)
            r.call(r.inv.read_runtime_data)
            r.call(r.inv.read_runtime_data)
            r.dev.reject_at = {len(r.dev.log) + k: code}
            with Probe() as p:
                res = r.call(r.inv.read_runtime_data)
                r.dev.reject_at = {}
                res2 = r.call(r.inv.read_runtime_data)
            n += 1
            for sid, pos, size, got, win in p.short:
                if ('C14', f'reads-inside-answer/{cfg["family"]}/{sid}') in _known():
                    continue
                key = f'reads-inside-answer/{cfg["family"]}/{sid}/request-answered-with-exception-{code}'
                out.setdefault(key, []).append(dict(key=key, clause='reads-inside-answer', replay=dict(cfg=cfg, transport='udp', busy=[k, code]),
                                                    detail=dict(cause=f'{sid}: read {size} bytes at payload position {pos}, got {got} (window {win[0]}+{win[1]}); '
                                                                      f'request #{k + 1} of the poll was answered with exception {code}')))
    res = []
    for key, lst in out.items():
        lst[0]['n'] = len(lst)
        res.append(lst[0])
    return n, res


def job_fragmented_polls(j):
    """Every answer of the poll arrives in two pieces (UDP datagrams / TCP segments, three split points): what the sensors
    are decoded from is the whole answer."""
    cfg, = j
    out = {}
    n = 0
    for transport in ('udp', 'tcp'):
        for at in (9, 20, 60):
            r = make_rig(cfg, transport)
            r.dev.fragment_at = at
            if r.call(r.inv.read_device_info)[0] != 'ok':
                continue
            with Probe() as p:
                r.call(r.inv.read_runtime_data)
                r.call(r.inv.read_runtime_data)
            n += 2
            for sid, pos, size, got, win in p.short:
                if ('C14', f'reads-inside-answer/{cfg["family"]}/{sid}') in _known():
                    continue
                key = f'reads-inside-answer/{cfg["family"]}/{transport}/answers-in-two-pieces'
                out.setdefault(key, []).append(dict(key=key, clause='reads-inside-answer', replay=dict(cfg=cfg, transport=transport, fragmented=True),
                                                    detail=dict(cause=f'{sid}: read {size} bytes at payload position {pos}, got {got} (window {win[0]}+{win[1]}); '
                                                                      f'every answer split after {at} bytes')))
    res = []
    for key, lst in out.items():
        lst[0]['n'] = len(lst)
        res.append(lst[0])
    return n, res


def job_boundary_contents(j):
    """Polls with every register at a boundary word (0x7FFF, 0x8000, 0x8001, 0xFFFF, 0, 1): what a sensor - a calculated
    one included - reads does not reach past the answer it is decoded from because of a value it found there."""
    cfg, = j
    out = {}
    n = 0
    for word in (0x7FFF, 0x8000, 0x8001, 0xFFFF, 0x0000, 0x0001, 0x7FFE):
        r = make_rig(cfg, 'udp', fill=lambda a, w=word: w)
        if r.call(r.inv.read_device_info)[0] != 'ok':
            continue
        with Probe() as p:
            r.call(r.inv.read_runtime_data)
            r.call(r.inv.read_runtime_data)
        n += 2
        for sid, pos, size, got, win in p.short:
            if ('C14', f'reads-inside-answer/{cfg["family"]}/{sid}') in _known():
                continue
            key = f'reads-inside-answer/{cfg["family"]}/{sid}/boundary-register-contents'
            out.setdefault(key, []).append(dict(key=key, clause='reads-inside-answer', replay=dict(cfg=cfg, transport='udp', boundary=True),
                                                detail=dict(cause=f'{sid}: read {size} bytes at payload position {pos}, got {got} (window {win[0]}+{win[1]}); '
                                                                  f'every register holds {word:#06x}')))
    res = []
    for key, lst in out.items():
        lst[0]['n'] = len(lst)
        res.append(lst[0])
    return n, res


def job_single_reads(j):
    """read_sensor(id) for every listed id and read_setting(id) for every setting of a configured object: the value is
    decoded from the registers that single request fetched, never from beyond the end of its answer."""
    cfg, = j
    out = {}
    n = 0
    r = make_rig(cfg, 'udp')
    inv = r.inv
    if r.call(inv.read_device_info)[0] != 'ok':
        return 0, []
    for phase in ('before-the-first-poll', 'after-a-poll'):
      if phase == 'after-a-poll':
        r.call(inv.read_runtime_data)
      # (listed once per phase: a change that makes sensors() grow with every call must not make this stage run for ever)
      listed_now, settings_now = list(world.listed(inv)), list(inv.settings())
      if len(listed_now) > 5000:
          key = f'sensors()-is-stable/{cfg["family"]}'
          out.setdefault(key, []).append(dict(key=key, clause='sensors()-is-stable', replay=dict(cfg=cfg, transport='udp', singles=True),
                                              detail=dict(cause=f'sensors() lists {len(listed_now)} entries {phase}')))
          break
      items = [('read_sensor', s.id_) for s in listed_now] + [('read_setting', s.id_) for s in settings_now]
      for fn, sid in items:
        l0 = len(r.dev.log)
        with Probe() as p:
            res1 = r.call(getattr(inv, fn), sid)
        n += 1
        # the registers the request fetched contain the registers of a sensor / setting the object lists under this id
        reqs = [q for q in r.dev.log[l0:] if q.get('fn') == 3]
        cands = [s for s in (listed_now if fn == 'read_sensor' else settings_now) if s.id_ == sid and refdec.size_of(s)]
        if res1[0] == 'ok' and reqs and cands and ('C14', f'reads-inside-answer/{cfg["family"]}/{sid}') not in _known():
            lo, hi = reqs[-1]['reg'], reqs[-1]['reg'] + reqs[-1]['count'] - 1
            if not any(lo <= s.offset and s.offset + (refdec.size_of(s) + 1) // 2 - 1 <= hi for s in cands):
                key = f'sensor-inside-window/{cfg["family"]}/{fn}/{sid}'
                out.setdefault(key, []).append(dict(key=key, clause='sensor-inside-window', replay=dict(cfg=cfg, transport='udp', singles=True),
                                                    detail=dict(cause=f'{fn}({sid!r}) {phase}: fetched registers {lo}..{hi}, the listed '
                                                                      f'{"sensor" if fn == "read_sensor" else "setting"} occupies '
                                                                      f'{[(s.offset, (refdec.size_of(s) + 1) // 2) for s in cands]}')))
        for _, pos, size, got, win in p.short:
            if ('C14', f'reads-inside-answer/{cfg["family"]}/{sid}') in _known():
                continue
            key = f'reads-inside-answer/{cfg["family"]}/{fn}/{sid}'
            out.setdefault(key, []).append(dict(key=key, clause='reads-inside-answer', replay=dict(cfg=cfg, transport='udp', singles=True),
                                                detail=dict(cause=f'{fn}({sid!r}): read {size} bytes at payload position {pos}, got {got} '
                                                                  f'(the request fetched {win[1]} registers from {win[0]})')))
    res = []
    for key, lst in out.items():
        lst[0]['n'] = len(lst)
        res.append(lst[0])
    return n, res


def job_overlapping_polls(j):
    """Two polls of one object overlap: the second is started when the inverter has seen k requests of the first, for every
    k - on a fresh object (the capability fallbacks happen while both are under way) and on a settled one.  Both polls
    decode from fetched registers only."""
    import asyncio
    cfg, = j
    out = {}
    n = 0
    for settled in (False, True):
        base = make_rig(cfg, 'udp')
        base.call(base.inv.read_device_info)
        if settled:
            base.call(base.inv.read_runtime_data)
        l0 = len(base.dev.log)
        base.call(base.inv.read_runtime_data)
        nreq = len(base.dev.log) - l0
        for k in range(nreq + 1):
            r = make_rig(cfg, 'udp')
            inv, dev = r.inv, r.dev
            r.call(inv.read_device_info)
            if settled:
                r.call(inv.read_runtime_data)
            l1 = len(dev.log)

            async def both():
                async def second():
                    guard = 0
                    while len(dev.log) - l1 < k and guard < 400:
                        guard += 1
                        await asyncio.sleep(0.0004)
                    return await inv.read_runtime_data()
                return await asyncio.gather(inv.read_runtime_data(), second(), return_exceptions=True)
            with Probe() as p:
                r.call(both)
                r.call(inv.read_runtime_data)
            n += 1
            for sid, pos, size, got, win in p.short:
                if ('C14', f'reads-inside-answer/{cfg["family"]}/{sid}') in _known():
                    continue
                key = f'reads-inside-answer/{cfg["family"]}/{sid}/overlapping-polls'
                out.setdefault(key, []).append(dict(key=key, clause='reads-inside-answer', replay=dict(cfg=cfg, transport='udp', overlap=[settled, k]),
                                                    detail=dict(cause=f'{sid}: read {size} bytes at payload position {pos}, got {got} (window {win[0]}+{win[1]}); '
                                                                      f'a second poll was started after request #{k} of the first'
                                                                      f'{" (object polled before)" if settled else " (first polls of the object)"}')))
    res = []
    for key, lst in out.items():
        lst[0]['n'] = len(lst)
        res.append(lst[0])
    return n, res


def job_transient(j):
    from .c15 import run_transient
    cfg, = j
    out = {}
    n = 0
    for k in range(0, 9):
        _, outs, shorts = run_transient(cfg, k, probe_reads=True)
        n += 1
        for sid, step in shorts:
            key = f'reads-inside-answer/{cfg["family"]}/{sid}'
            out.setdefault(key, []).append(dict(key=key, clause='reads-inside-answer', replay=dict(cfg=cfg, transport='udp', lost=k),
                                                detail=dict(cause=f'{sid}: short read on {step} after request #{k + 1} of poll 1 was lost')))
    res = []
    for key, lst in out.items():
        lst[0]['n'] = len(lst)
        res.append(lst[0])
    return n, res


def run(tier, seed, rep):
    # histories of public API calls and device changes on one object; the poll that follows each history is judged
    from .. import api_sessions
    _api = api_sessions.explore(tier, seed, {'C14'})
    rep.add_many([v for v in _api['violations'] if v['prop'] == 'C14'])
    from .c15 import transient_configs
    for n, res in pmap(job_transient, [(c,) for c in transient_configs() if c['family'] == 'ET']):
        rep.add_many(res)
    nbusy = 0
    busy_cfgs = [dict(family='ET', tag=t, power=p, refused=rf, battery_mode=2)
                 for t, p in (('ETU', 15000), ('ETT', 10000), ('25KET', 25000)) for rf in ((), ('meter_ext2',), ('meter_ext', 'meter_ext2'))] + \
                [dict(family='DT', tag='DTU', power=5000, refused=(), battery_mode=0)]
    for n, res in pmap(job_busy, [(c,) for c in busy_cfgs]):
        nbusy += n
        rep.add_many(res)
    from ..configs import firmware_configs
    fw = [(c, 'udp') for c in firmware_configs()]
    for n, nr, res, sts in pmap(job, [fw[i::16] for i in range(16)]):
        total_fw = n
        for v in res:
            v['key'] += '/firmware-version-sweep' if ('C14', v['key']) not in _known() else ''
        rep.add_many(res)
    nfrag = 0
    for n, res in pmap(job_fragmented_polls, [(c,) for c in busy_cfgs if not c['refused']]):
        nfrag += n
        rep.add_many(res)
    nbound = 0
    for n, res in pmap(job_boundary_contents, [(c,) for c in busy_cfgs]):
        nbound += n
        rep.add_many(res)
    nsingle = 0
    for n, res in pmap(job_single_reads, [(c,) for c in busy_cfgs] + [(dict(c, refuse_mode='cover'),) for c in busy_cfgs if c['refused']]):
        nsingle += n
        rep.add_many(res)
    novl = 0
    ovl_cfgs = busy_cfgs + [dict(family='ET', tag='ETU', power=15000, refused=rf, battery_mode=2) for rf in (('battery',), ('mppt',), ('battery2', 'meter_ext2'))] + \
        [dict(family='DT', tag='DTU', power=5000, refused=('meter',), battery_mode=0)]
    for n, res in pmap(job_overlapping_polls, [(c,) for c in ovl_cfgs]):
        novl += n
        rep.add_many(res)
    dyn_cfgs = [dict(family='ET', tag=t, power=p, refused=(), battery_mode=2)
                for t, p in (('ETU', 3000), ('ETU', 25000), ('ETT', 10000), ('EHU', 5000))]
    ndyn = 0
    for n, res in pmap(job_dyn, [(c, 2) for c in dyn_cfgs]):
        ndyn += n
        rep.add_many(res)
    cases = [(c, 'udp') for c in et_configs(tier, seed)] + [(c, 'udp') for c in dt_configs(tier, seed)]
    cases += [(c, 'tcp') for i, c in enumerate(et_configs('quick', seed)) if i % 16 == 0]
    for mode in ('bytecount', 'zero', 'echo6', 'plus7'):
        cases += [(dict(c, mbap_length=mode), 'tcp') for i, c in enumerate(et_configs('quick', seed)) if i % 64 == 1]
        cases += [(dict(c, mbap_length=mode), 'tcp') for i, c in enumerate(dt_configs('quick', seed)) if i % 8 == 0]
    for red in ('silent', 'poll+silent', 'lost-first', 'poll+again'):
        cases += [(dict(c, redetect=red), 'udp') for i, c in enumerate(et_configs('quick', seed)) if i % 24 == 5]
        cases += [(dict(c, redetect=red), 'udp') for i, c in enumerate(dt_configs('quick', seed)) if i % 8 == 3]
    # ordered pairs of objects: one representative tag per model class x rated-power class, every (first, second)
    reps = {}
    for c in list(et_configs('quick', seed)) + [dict(family='ET', tag='ETT', power=p, refused=(), battery_mode=2) for p in (3000, 15000)]:
        if not c['refused'] and c['battery_mode'] == 2 and c['power'] in (3000, 14999, 15000, 25000):
            reps[(c['tag'], c['power'])] = c
    dreps = {}
    for c in dt_configs('quick', seed):
        if not c['refused'] and c['power'] == 3000:
            dreps[c['tag']] = c
    for a in reps.values():
        for b in reps.values():
            if a is not b:
                cases.append((dict(b, first_other=a), 'udp'))
    for a in dreps.values():
        for b in dreps.values():
            if a is not b:
                cases.append((dict(b, first_other=a), 'udp'))
    k = 64
    total = reads = 0
    states = set()
    for n, nr, res, sts in pmap(job, [cases[i::k] for i in range(k)]):
        total += n
        reads += nr
        states |= sts
        rep.add_many(res)
    cov = dict(api_session_histories=_api['histories'], api_session_states=_api['states'], states=len(states), transitions=reads, executions=total, traces_validated_against_impl=total,
               configurations=total, dynamic_histories=ndyn, polls_with_one_request_rejected=nbusy, overlapping_poll_pairs=novl, single_reads_probed=nsingle, polls_with_boundary_contents=nbound, polls_with_split_answers=nfrag, instrumented_reads=reads, exhaustive=True,
               bound='every model configuration of C15 (tags x rated power x refused subsets x battery) x every sensor of '
                     'every block; each ProtocolResponse.read is observed (position, requested, returned) and cross-checked '
                     'with the static sensor-span-versus-request-window computation',
               state_definition='distinct (model classes, power, refused subset, battery, outcome); transitions = '
                                'instrumented reads',
               samples=[dict(cfg=cases[0][0]), dict(cfg=cases[-1][0])])
    return dict(level='model_checking', coverage=cov,
                assumptions=['the device model always answers with exact-length frames',
                             'documented size of a type from mc/refdec.size_of (not sensor.size_)'])


def replay(r):
    if r.get('part') == 'api-session':
        from .. import api_sessions
        out = api_sessions.replay(r)
        out['violations'] = [m for m in out['violations'] if m[0] == 'C14']
        return out
    cfg = r['cfg']
    cfg['refused'] = tuple(cfg['refused'])
    if r.get('fragmented'):
        n, res = job_fragmented_polls((cfg,))
        return dict(polls=n, violations=[('reads-inside-answer', v['key']) for v in res])
    if r.get('boundary'):
        n, res = job_boundary_contents((cfg,))
        return dict(polls=n, violations=[('reads-inside-answer', v['key']) for v in res])
    if r.get('singles'):
        n, res = job_single_reads((cfg,))
        return dict(reads=n, violations=[('reads-inside-answer', v['key']) for v in res])
    if 'overlap' in r:
        n, res = job_overlapping_polls((cfg,))
        return dict(pairs=n, violations=[('reads-inside-answer', v['key']) for v in res])
    if 'busy' in r:
        n, res = job_busy((cfg,))
        return dict(polls=n, violations=[('reads-inside-answer', v['key']) for v in res])
    if 'lost' in r:
        from .c15 import run_transient
        _, outs, shorts = run_transient(cfg, r['lost'], probe_reads=True)
        return dict(outcomes=outs, violations=[('reads-inside-answer', x) for x in sorted({x[0] for x in shorts}) if x not in ('apparent_power2', 'apparent_power3')])
    if 'changes' in r:
        from .c15 import run_dynamic
        _, outs, shorts = run_dynamic(cfg, r['changes'], probe_reads=True)
        return dict(outcomes=outs, violations=[('reads-inside-answer', x) for x in sorted({x[0] for x in shorts}) if x not in ('apparent_power2', 'apparent_power3')])
    vio, nr, oc = run_config(cfg, r['transport'])
    return dict(outcome=oc, reads=nr, violations=vio)
