"""C11 - decoding is total: every sensor is reported, undecodable values become None (DESIGN 3, C11)."""
from __future__ import annotations

import struct

from .. import world, refdec, wire
from ..blocks import all_tables, Table, own_span, tname, context, poke
from ..explore import pmap
from ..kernel import KLoop
from ..peer import PlanPeer, D0
from ..sensor_enum import own_values
from ..proto import HOST

Inverter = world.goodwe.Inverter
gp = world.gp


def map_outcome(resp, sensors):
    try:
        return ('dict', Inverter._map_response(resp, tuple(sensors)))
    except BaseException as e:  # noqa: BLE001
        return ('raised', type(e).__name__, str(e)[:80])


def fills(nbytes, seed):
    yield 'all-00', bytes(nbytes)
    yield 'all-ff', b'\xff' * nbytes
    yield 'all-7f', b'\x7f' * nbytes
    yield 'all-80', b'\x80' * nbytes
    yield '7fff-words', b'\x7f\xff' * (nbytes // 2) + b'\x7f' * (nbytes % 2)
    yield '8000-words', b'\x80\x00' * (nbytes // 2) + b'\x80' * (nbytes % 2)
    yield 'ffff-0000', (b'\xff\xff\x00\x00' * (nbytes // 4 + 1))[:nbytes]
    yield '0000-ffff', (b'\x00\x00\xff\xff' * (nbytes // 4 + 1))[:nbytes]
    for k in range(3):
        yield f'context{k}', bytes(context(nbytes, seed, k))


def job_sensor(j):
    ti, si, full, seed = j
    world.reset()
    t0 = all_tables()[ti]
    s = t0.sensors[si]
    n = refdec.size_of(s)
    t = t0
    if t.mode == 'modbus' and t.nbytes > 250:
        t = Table(t.family, t.name, [s], 'modbus', start=max(s.offset - 2, 0), length=n + (n % 2) + 8)
    vio = {}
    cnt = [0, 0]
    ctx = context(t.nbytes, seed, 1)
    resp = t.response(bytes(ctx))
    pos = t.byte_pos(s)
    def overlaps(x):
        px, nx = t.byte_pos(x), max(refdec.size_of(x), 1)
        return px < pos + n and pos < px + nx
    others = [x for x in t.sensors if x is not s and own_span(x) and not overlaps(x)][:6]
    base_other = None

    def bad(key, clause, own, detail):
        vio.setdefault(key, []).append(dict(key=key, clause=clause,
                                            replay=dict(kind='sensor', table=[t0.family, t0.name], sensor=s.id_, own=own),
                                            detail=detail))
    nov = 0
    for b in own_values(s, full):
        poke(resp, pos, b)
        o = map_outcome(resp, (s,))
        cnt[0] += 1
        if o[0] == 'raised':
            bad(f'no-exception/{t0.family}/{tname(s)}/{o[1]}', 'decoding raised a non-ValueError exception', b.hex(),
                dict(sensor=s.id_, own_bytes=b.hex(), exception=o[1], message=o[2]))
            continue
        d = o[1]
        if list(d) != [s.id_]:
            bad(f'every-id-present/{t0.family}/{tname(s)}', 'result lacks the sensor id', b.hex(), dict(keys=list(d)))
            continue
        ref = refdec.decode(s, b)
        if ref is refdec.NOVALUE:
            cnt[1] += 1
            if d[s.id_] is not None:
                bad(f'uninterpretable-is-None/{t0.family}/{tname(s)}', 'uninterpretable registers must be reported as None',
                    b.hex(), dict(sensor=s.id_, own_bytes=b.hex(), reported=str(d[s.id_])[:60]))
            nov += 1
            if nov <= 4 and others:
                # the undecodable group never prevents / alters the other values of the same block
                o2 = map_outcome(resp, others)
                if base_other is None:
                    poke(resp, pos, bytes(ctx[pos:pos + len(b)]))
                    base_other = map_outcome(resp, others)
                    poke(resp, pos, b)
                if repr(o2) != repr(base_other):
                    bad(f'others-unaffected/{t0.family}/{tname(s)}', 'other values changed', b.hex(),
                        dict(sensor=s.id_, own_bytes=b.hex()))
    res = []
    for key, lst in vio.items():
        v = lst[0]
        v['n'] = len(lst)
        res.append(v)
    return cnt[0], cnt[1], res


def job_table(j):
    ti, seed = j
    world.reset()
    t = all_tables()[ti]
    if t.mode == 'modbus' and t.nbytes > 250:
        return 0, []
    ids = [s.id_ for s in t.sensors]
    n = 0
    out = []
    for name, pl in fills(t.nbytes, seed):
        for transport in (('rtu', 'tcp') if t.mode == 'modbus' else ('rtu',)):
            resp = t.response(pl, transport)
            o = map_outcome(resp, t.sensors)
            n += 1
            if o[0] == 'raised':
                out.append(dict(key=f'no-exception/{t.family}/{t.name}/{o[1]}', clause='decoding raised a non-ValueError exception',
                                replay=dict(kind='table', table=[t.family, t.name], fill=name),
                                detail=dict(fill=name, exception=o[1], message=o[2])))
            elif list(o[1]) != list(dict.fromkeys(ids)):
                out.append(dict(key=f'every-id-present/{t.family}/{t.name}', clause='result keys are not the ids of the table',
                                replay=dict(kind='table', table=[t.family, t.name], fill=name),
                                detail=dict(fill=name, missing=sorted(set(ids) - set(o[1])))))
    return n, out


# ------------------------------------------------------------------ ES: any announced length, through the real API

def run_es_length(kind, n, fill):
    world.reset()
    rt = {'runtime': '0186', 'settings': '0189'}[kind]
    pl = (bytes([fill]) * n) if fill is not None else bytes((i * 29 + 3) & 0xFF for i in range(n))

    def plan(k, req, now):
        try:
            rq = wire.parse_aa55_request(req)
        except wire.BadRequest:
            return []
        if rq['cmd'] == b'\x01\x06' and kind == 'runtime':
            return [(D0, ('data', wire.aa55_resp('0186', pl)))]
        if rq['cmd'] == b'\x01\x09' and kind == 'settings':
            return [(D0, ('data', wire.aa55_resp('0189', pl)))]
        return []
    peer = PlanPeer(plan)
    loop = KLoop(peer)
    inv = world.goodwe.ES(HOST, 8899, 0, 1, 0)

    async def main():
        try:
            d = await (inv.read_runtime_data() if kind == 'runtime' else inv.read_settings_data())
            return ('dict', d)
        except BaseException as e:  # noqa: BLE001
            return ('raised', type(e).__name__, str(e)[:80])
    st, o = loop.run(main())
    want = [s.id_ for s in (inv.sensors() if kind == 'runtime' else inv.settings())]
    if st == 'hang' or o[0] == 'raised':
        return [(f'no-exception/ES/{kind}-length/{o[1] if st != "hang" else "hang"}', str(o))]
    if list(o[1]) != list(dict.fromkeys(want)):
        return [(f'every-id-present/ES/{kind}-length', f'missing {sorted(set(want) - set(o[1]))[:5]}')]
    return []


def job_es(j):
    kind, lens = j
    out = []
    n = 0
    for ln in lens:
        for fill in (0x00, 0xFF, 0x7F, None):
            n += 1
            for key, cause in run_es_length(kind, ln, fill):
                out.append(dict(key=key, clause=key.split('/')[0], replay=dict(kind='es', what=kind, length=ln, fill=fill),
                                detail=dict(length=ln, fill=fill, cause=cause)))
    res = {}
    for v in out:
        res.setdefault(v['key'], []).append(v)
    r2 = []
    for key, lst in res.items():
        lst[0]['n'] = len(lst)
        r2.append(lst[0])
    return n, r2


def sample_sensor(fam, table, sid, own_hex):
    t = [x for x in all_tables() if x.family == fam and x.name == table][0]
    s = [x for x in t.sensors if x.id_ == sid][0]
    tab = Table(fam, table, [s], 'modbus', start=s.offset, length=len(own_hex) // 2)
    o = map_outcome(tab.response(bytes.fromhex(own_hex)), (s,))
    return dict(table=f'{fam}.{table}', sensor=sid, own_registers=own_hex, outcome=str(o)[:120])


def run(tier, seed, rep):
    tabs = all_tables()
    full = tier == 'thorough'
    jobs = []
    for ti, t in enumerate(tabs):
        seen = {}
        for si, s in enumerate(t.sensors):
            if not own_span(s):
                continue
            k = tname(s)
            idx = [i for i, x in enumerate(t.sensors) if tname(x) == k]
            f = full or (idx[seed % len(idx)] == si and refdec.size_of(s) >= 6) or \
                (idx[seed % len(idx)] == si and refdec.size_of(s) <= 2)
            jobs.append((ti, si, f, seed))
    total = nov = 0
    for n, nv, res in pmap(job_sensor, jobs, chunksize=4):
        total += n
        nov += nv
        rep.add_many(res)
    nt = 0
    for n, res in pmap(job_table, [(i, seed) for i in range(len(tabs))]):
        nt += n
        rep.add_many(res)
    ne = 0
    lens = list(range(256))
    for n, res in pmap(job_es, [(k, lens[i:i + 32]) for k in ('runtime', 'settings') for i in range(0, 256, 32)]):
        ne += n
        rep.add_many(res)
    from . import c11_settings
    ns = c11_settings.run_part(tier, seed, rep)
    from . import c11_overlap
    no = c11_overlap.run_part(tier, seed, rep)
    cov = dict(evaluations=total + nt + ne + ns + no, distinct_nontrivial=nov, overlapping_poll_schedules=no,
               rule='per sensor: own-register contents as in C12 (exhaustive per 16-bit field for eco-mode / schedule '
                    'groups, per byte for timestamps) through Inverter._map_response; whole-block fills (all-00, all-FF, '
                    'sentinel mixes, seed contexts) through both Modbus framings; ES runtime/settings answers of every '
                    'announced length 0..255 through the real API on the real transport; ET/DT/ES settings reads through '
                    'the device model; overlapping polls of one object, the later call starting after every number k of requests of '
                    'the first (c11_overlap); non-trivial = contents the reference decoder calls uninterpretable',
               table_fills=nt, es_length_cases=ne, settings_api_cases=ns, exhaustive=full,
               samples=[sample_sensor('ET', 'all_settings', 'eco_mode_1', '0000173bffecff80'),
                        sample_sensor('ET', 'settings_arm_fw_19', 'eco_mode_1', '0000173bff7fffec00641000'),
                        dict(api='ES.read_runtime_data', announced_length=17, violations=run_es_length('runtime', 17, 0xFF))])
    return dict(level='exploration', coverage=cov,
                assumptions=['"uninterpretable" is decided by the reference decoder of mc/refdec.py (impossible date, '
                             'out-of-range hour/minute/power/SoC, unknown schedule type)'])


def replay(r):
    if r['kind'] == 'sensor':
        t0 = [x for x in all_tables() if [x.family, x.name] == r['table']][0]
        s = [x for x in t0.sensors if x.id_ == r['sensor']][0]
        n = refdec.size_of(s)
        t = t0
        if t.mode == 'modbus' and t.nbytes > 250:
            t = Table(t.family, t.name, [s], 'modbus', start=max(s.offset - 2, 0), length=n + (n % 2) + 8)
        resp = t.response(bytes(context(t.nbytes, 0, 1)))
        poke(resp, t.byte_pos(s), bytes.fromhex(r['own']))
        o = map_outcome(resp, (s,))
        ref = refdec.decode(s, bytes.fromhex(r['own']))
        bad = o[0] == 'raised' or (ref is refdec.NOVALUE and o[1][s.id_] is not None)
        return dict(outcome=str(o)[:200], reference=str(ref)[:100], violations=[str(o)[:100]] if bad else [])
    if r['kind'] == 'es':
        v = run_es_length(r['what'], r['length'], r['fill'])
        return dict(violations=v)
    if r['kind'] == 'table':
        t = [x for x in all_tables() if [x.family, x.name] == r['table']][0]
        for name, pl in fills(t.nbytes, 0):
            if name == r['fill']:
                o = map_outcome(t.response(pl), t.sensors)
                return dict(outcome=str(o)[:200], violations=[o[1]] if o[0] == 'raised' else [])
    if r['kind'] == 'overlap':
        from . import c11_overlap
        return c11_overlap.replay(r)
    from . import c11_settings
    return c11_settings.replay(r)
