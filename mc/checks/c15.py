"""C15 - read_runtime_data() keys equal sensors() for every model and capability set (DESIGN 3, C15)."""
from __future__ import annotations

from .. import world
from ..configs import et_configs, dt_configs, es_configs, make_rig, classes_of, serial_for
from ..explore import pmap, h

ET_TABLES = world.tables(world.goodwe.ET)
DT_TABLES = world.tables(world.goodwe.DT)


def block_ids(fam, name):
    t = (ET_TABLES if fam == 'ET' else DT_TABLES)[name]
    return [s.id_ for s in t]


def window_of(rq):
    return rq['reg'], rq['reg'] + rq['count'] - 1


_FULL = {}


def _pinned_ids(cfg):
    global _PINNED
    try:
        d = _PINNED
    except NameError:
        import json
        import os
        d = _PINNED = json.load(open(os.path.join(os.path.dirname(os.path.dirname(__file__)), 'data', 'healthy_ids.json')))
    k = d['index'].get(f"{cfg['family']}|{cfg['tag']}|{cfg['power']}|{cfg['battery_mode']}")
    return None if k is None else d['sets'][k]


def travelled_in(cfg, transport='udp'):
    """{sensor id: (lo, hi) of the request window its registers travelled in} for the SAME model, rated power and battery
    on an inverter that refuses nothing (second poll: the object has settled)."""
    from .. import refdec
    key = (cfg['family'], cfg['tag'], cfg['power'], cfg['battery_mode'], transport)
    if key not in _FULL:
        r = make_rig(dict(cfg, refused=()), transport)
        out = {}
        if r.call(r.inv.read_device_info)[0] == 'ok':
            r.call(r.inv.read_runtime_data)
            n0 = len(r.dev.log)
            res = r.call(r.inv.read_runtime_data)
            wins = [window_of(q) for q in r.dev.log[n0:] if q.get('fn') == 3]
            if res[0] == 'ok':
                for s in world.listed(r.inv):
                    n = refdec.size_of(s)
                    if not n or type(s).__name__ in ('Calculated', 'EnumCalculated') or s.id_ not in res[1]:
                        continue
                    for lo, hi in wins:
                        if lo <= s.offset and s.offset + (n + 1) // 2 - 1 <= hi:
                            out[s.id_] = (lo, hi)
                            break
        _FULL[key] = out
    return _FULL[key]


def run_config(cfg, transport='udp', calls=3):
    r = make_rig(cfg, transport)
    inv, dev = r.inv, r.dev
    vio = []
    di = r.call(inv.read_device_info)
    if di[0] != 'ok':
        vio.append(('device-info-succeeds', str(di)))
        return vio, ('device-info', di[0])
    outcomes = []
    first_ok = None
    keysets = []
    for i in range(calls):
        n0 = len(dev.log)
        res = r.call(inv.read_runtime_data)
        outcomes.append(res[0])
        if res[0] != 'ok':
            continue
        if first_ok is None:
            first_ok = i
        keys = set(res[1])
        le = world.listed(inv).error
        if le:
            vio.append(('sensors()-works', f'after call {i + 1}: {le}'))
        # the device does not change between the calls: "refused blocks disappear, supported ones are all present" at
        # every call that returns means every such call reports the same ids
        if keysets and keys != keysets[-1][1]:
            j, prev = keysets[-1]
            vio.append(('supported-present-at-every-call', f'call {j + 1} reported {sorted(prev - keys)[:3]} (+{len(prev - keys)}), '
                                                            f'call {i + 1} does not; new in call {i + 1}: {sorted(keys - prev)[:3]}'))
        keysets.append((i, keys))
        if cfg['family'] in ('ET', 'DT') and cfg['refused'] and i == calls - 1:
            # "supported ones are all present": a sensor whose block - the request window it travels in on an inverter that
            # refuses nothing - does not touch any refused register is still reported by this (settled) object
            full = travelled_in(cfg, transport)
            gone = sorted(sid for sid, (lo, hi) in full.items() if sid not in keys and not dev.is_refused(lo, hi - lo + 1))
            if gone:
                vio.append(('supported-block-present', f'call {i + 1}: {len(gone)} ids of blocks the inverter serves are missing, e.g. {gone[:3]} '
                                                       f'(refused: {list(cfg["refused"])})'))
        if i == calls - 1 and not cfg['refused'] and set(cfg) <= {'family', 'tag', 'power', 'refused', 'battery_mode'} and transport == 'udp':
            # an inverter that refuses nothing: the settled object reports every id documented for this model, rated power
            # and battery mode (pinned from the tree at the pinned commit, mc/data/healthy_ids.json)
            want = _pinned_ids(cfg)
            if want is not None and not set(want) <= keys:
                gone = sorted(set(want) - keys)
                vio.append(('supported-block-present', f'call {i + 1}: an inverter that refuses nothing, {len(gone)} ids documented for '
                                                       f'{cfg["tag"]} / {cfg["power"]} W are missing, e.g. {gone[:3]}'))
        ids = {s.id_ for s in world.listed(inv)}
        if keys != ids:
            extra = sorted(keys - ids)[:4]
            missing = sorted(ids - keys)[:4]
            vio.append(('keys==sensors()', f'call {i + 1}: in result only {extra}, in sensors() only {missing}'))
        # blocks the device answered in this call are present; refused blocks are absent from both
        if cfg['family'] in ('ET', 'DT'):
            reqs = dev.log[n0:]
            tabs = ET_TABLES if cfg['family'] == 'ET' else DT_TABLES
            for name, sensors in tabs.items():
                if 'settings' in name or name == 'all_sensors':
                    continue
                lo_t = min(s.offset for s in sensors)
                served = [q for q in reqs if q['fn'] == 3 and q['reg'] == lo_t and not dev.is_refused(q['reg'], q['count'])]
                if served:
                    lo, hi = window_of(served[-1])
                    inside = [s.id_ for s in sensors if lo <= s.offset <= hi]
                    listed = {s.id_ for s in world.listed(inv)}
                    expect = [x for x in inside if x in listed or True]
                    # first and last sensor of the served window must be reported (unless the model filters them)
                    cand = [x for x in inside if x in ids]
                    if cand and not ({cand[0], cand[-1]} <= keys):
                        vio.append(('served-block-present', f'{name}: {cand[0]}/{cand[-1]} missing'))
                    if not cand:
                        vio.append(('served-block-present', f'{name}: fetched but none of its sensors is listed'))
                refused_all = [q for q in reqs if q['fn'] == 3 and q['reg'] == lo_t and dev.is_refused(q['reg'], q['count'])]
                if refused_all and not served:
                    leak = [s.id_ for s in sensors if s.id_ in keys]
                    if leak:
                        vio.append(('refused-block-absent', f'{name}: {leak[:3]} reported although the block was refused'))
    if first_ok is None or first_ok > 1:
        vio.append(('succeeds-by-second-call', f'outcomes {outcomes}'))
    if dev.bad:
        vio.append(('requests-parse', str(dev.bad[0][1])))
    if dev.write_functions_seen():
        vio.append(('no-write-function', str(dev.write_functions_seen()[0])[:80]))
    return vio, tuple(outcomes) + (len(world.listed(inv)),)


# ------------------------------------------------------------------ capabilities that change BETWEEN calls

CHANGES = ['battery-off', 'battery-on'] + [f'refuse:{b}' for b in ('battery', 'battery2', 'meter_ext', 'meter_ext2', 'mppt')] + \
          [f'accept:{b}' for b in ('battery', 'meter_ext2', 'mppt')]


def run_dynamic(cfg, changes, probe_reads=False):
    """call, change, call, change, call ... : whenever a call returns, keys == sensors() right after it."""
    from ..devsim import ET_OPTIONAL
    r = make_rig(cfg)
    inv, dev = r.inv, r.dev
    vio = []
    if r.call(inv.read_device_info)[0] != 'ok':
        return [('device-info-succeeds', '')], ()
    outs = []
    shorts = []
    for step in [None] + list(changes) + [None]:
        if step == 'battery-off':
            dev.rf.set(35184, 0)
        elif step == 'battery-on':
            dev.rf.set(35184, 2)
        elif step and step.startswith('refuse:'):
            dev.refused = [x for x in dev.refused if x not in ET_OPTIONAL[step[7:]]] + ET_OPTIONAL[step[7:]]
        elif step and step.startswith('accept:'):
            dev.refused = [x for x in dev.refused if x not in ET_OPTIONAL[step[7:]]]
        if probe_reads:
            from .c14 import Probe
            with Probe() as p:
                res = r.call(inv.read_runtime_data)
            shorts += [(x[0], step) for x in p.short]
        else:
            res = r.call(inv.read_runtime_data)
        outs.append(res[0])
        if res[0] == 'ok':
            keys, ids = set(res[1]), {s.id_ for s in world.listed(inv)}
            if keys != ids:
                vio.append(('keys==sensors()', f'after {step}: in result only {sorted(keys - ids)[:3]}, in sensors() only {sorted(ids - keys)[:3]}'))
    # two failures in a row are only legitimate while the device keeps changing; the last two calls see a static device
    if outs[-1] != 'ok' and outs[-2] != 'ok':
        vio.append(('succeeds-by-second-call', f'outcomes {outs} for changes {list(changes)}'))
    if dev.bad:
        vio.append(('requests-parse', str(dev.bad[0][1])))
    return vio, tuple(outs), shorts


def run_transient(cfg, k, probe_reads=False):
    """the k-th request counted from poll 1 is lost (retries exhausted, that poll fails or falls back), all others are answered:
    whenever a call returns, keys == sensors(); the later polls must succeed."""
    r = make_rig(cfg)
    inv, dev = r.inv, r.dev
    if r.call(inv.read_device_info)[0] != 'ok':
        return [('device-info-succeeds', '')], (), []
    drop = len(dev.log) + k
    dev.drop_at = {drop}
    vio = []
    outs = []
    shorts = []
    lost_poll = None
    for i in range(7):
        l0 = len(dev.log)
        if probe_reads:
            from .c14 import Probe
            with Probe() as p:
                res = r.call(inv.read_runtime_data)
            shorts += [(x[0], f'poll {i + 1}') for x in p.short]
        else:
            res = r.call(inv.read_runtime_data)
        outs.append(res[0])
        if l0 <= drop < len(dev.log):
            lost_poll = i
        if res[0] == 'ok':
            keys, ids = set(res[1]), {s.id_ for s in world.listed(inv)}
            if keys != ids:
                vio.append(('keys==sensors()', f'poll {i + 1} after request #{k + 1} of poll 1 was lost: in result only '
                                               f'{sorted(keys - ids)[:3]}, in sensors() only {sorted(ids - keys)[:3]}'))
    # exactly one request is lost in the whole run: the poll it falls in may fail, the one after it may still be the
    # legitimate 'first call after a refusal' failure, every later poll must succeed
    if lost_poll is not None and any(o != 'ok' for o in outs[lost_poll + 2:]):
        vio.append(('succeeds-by-second-call', f'outcomes {outs}; request #{k + 1} (counted from poll 1) was lost in poll {lost_poll + 1}'))
    return vio, tuple(outs), shorts


def job_transient(j):
    cfg, = j
    out = {}
    n = 0
    for k in range(0, 9):
        vio, outs, _ = run_transient(cfg, k)
        n += 1
        for clause, cause in vio:
            key = f"{clause}/{cfg['family']}/transient-loss/refused:{'+'.join(cfg['refused']) or 'none'}"
            out.setdefault(key, []).append(dict(key=key, clause=clause, replay=dict(cfg=cfg, transport='udp', lost=k),
                                                detail=dict(cause=cause, lost_request_index=k)))
    res = []
    for key, lst in out.items():
        lst[0]['n'] = len(lst)
        res.append(lst[0])
    return n, res


def transient_configs():
    import itertools
    for tag, p in (('ETU', 3000), ('ETU', 25000), ('ETT', 10000)):
        for r in range(0, 3):
            for sub in itertools.combinations(('battery', 'battery2', 'meter_ext', 'meter_ext2', 'mppt'), r):
                yield dict(family='ET', tag=tag, power=p, refused=sub, battery_mode=2)
    for tag in ('DTU', 'DSN'):
        for sub in ((), ('meter',)):
            yield dict(family='DT', tag=tag, power=5000, refused=sub, battery_mode=0)


def job_dyn(j):
    import itertools
    cfg, depth = j
    out = {}
    n = 0
    for k in range(1, depth + 1):
        for changes in itertools.product(CHANGES, repeat=k):
            vio, outs, _ = run_dynamic(cfg, changes)
            n += 1
            for clause, cause in vio:
                key = f"{clause}/{cfg['family']}/dynamic:{'+'.join(sorted(set(c.split(':')[0] + ':' + c.split(':')[-1] for c in changes)))}"
                out.setdefault(key, []).append(dict(key=key, clause=clause, replay=dict(cfg=cfg, transport='udp', changes=list(changes)),
                                                    detail=dict(cause=cause, changes=list(changes))))
    res = []
    for key, lst in out.items():
        lst.sort(key=lambda v: len(v['replay']['changes']))
        lst[0]['n'] = len(lst)
        res.append(lst[0])
    return n, res


def job(cfgs):
    out = {}
    n = 0
    ocs = {}
    states = set()
    for cfg, transport in cfgs:
        vio, oc = run_config(cfg, transport)
        n += 1
        ocs[oc] = ocs.get(oc, 0) + 1
        states.add(h((cfg['family'], sorted(classes_of(serial_for(cfg['tag']))), cfg['power'], cfg['refused'],
                      cfg['battery_mode'], transport, oc)))
        for clause, cause in vio:
            v2, _ = run_config(cfg, transport)
            key = f"{clause}/{cfg['family']}/refused:{'+'.join(cfg['refused']) or 'none'}" + \
                ('/refused-block-reads:' + '+'.join(f'{a}x{b}' for a, b in cfg['refused_requests']) if cfg.get('refused_requests') else '') + \
                ('/firmware-version-sweep' if cfg.get('versions') else '')
            if not any(c == clause for c, _ in v2):
                key = f"{clause}/{cfg['family']}/order-dependent"
                cause = f'{cause}; ' + 'failed during exploration but not on a fresh replay: the outcome depends on earlier executions in the same process (state outside the objects under test leaks between executions)'
            out.setdefault(key, []).append(dict(key=key, clause=clause, replay=dict(cfg=cfg, transport=transport),
                                                detail=dict(cause=cause, cfg=cfg)))
    res = []
    for key, lst in out.items():
        lst[0]['n'] = len(lst)
        res.append(lst[0])
    return n, ocs, res, states


def model_class_stage(rep):
    """Which optional blocks a model HAS is documented by serial-number tag and rated power (mc/data/model_tags.json, pinned):
    on an inverter that serves every block, a model with the MPPT / extended-meter / second-battery hardware reports those
    blocks, a single-phase model reports no L2 / L3 values, a two-string model no pv3 / pv4 - for every pinned tag and the
    rated powers around the documented thresholds.  (A tag the library newly knows is not judged; a pinned tag must keep
    its class.)"""
    import json
    import os
    pin = json.load(open(os.path.join(os.path.dirname(os.path.dirname(__file__)), 'data', 'model_tags.json')))
    n = 0

    def has(tag, lst):
        s = serial_for(tag).decode()
        return any(t in s for t in pin[lst])
    mppt_ids = block_ids('ET', 'all_sensors_mppt')
    bat2_ids = block_ids('ET', 'all_sensors_battery2')
    for tag in pin['et_tags']:
        for power in (3000, 14999, 15000, 24999, 25000):
            cfg = dict(family='ET', tag=tag, power=power, refused=(), battery_mode=2)
            r = make_rig(cfg)
            if r.call(r.inv.read_device_info)[0] != 'ok':
                continue
            r.call(r.inv.read_runtime_data)
            res = r.call(r.inv.read_runtime_data)
            n += 1
            if res[0] != 'ok':
                continue
            keys = set(res[1])
            ext = has(tag, 'platform_745') or power >= 15000
            checks = [('mppt-block', ext, mppt_ids[0] in keys and mppt_ids[-3] in keys),
                      ('extended-meter-block', ext, 'meter_voltage1' in keys if 'meter_voltage1' in {s.id_ for s in ET_TABLES['all_sensors_meter']} else ext),
                      ('second-battery-block', has(tag, 'bat2') or power >= 25000, bat2_ids[0] in keys and bat2_ids[-1] in keys),
                      ('pv3-pv4-values', has(tag, 'mppt4') or power >= 15000, 'vpv3' in keys and 'vpv4' in keys),
                      ('l2-l3-values', not has(tag, 'single_phase'), 'vgrid2' in keys and 'vgrid3' in keys)]
            for what, expected, present in checks:
                if expected != present:
                    rep.add(f'model-class/{what}/ET', 'supported blocks are all present, per documented model class',
                            dict(part='model-class', tag=tag, power=power),
                            dict(cause=f'serial tag {tag}, rated {power} W: {what} {"expected" if expected else "not expected"} by the pinned model '
                                       f'classes, {"present" if present else "absent"} in the result'))
    return n


def all_cases(tier, seed):
    cases = []
    for c in et_configs(tier, seed):
        cases.append((c, 'udp'))
    for i, c in enumerate(et_configs('quick', seed)):
        if tier == 'thorough' or i % 8 == 0:
            cases.append((c, 'tcp'))
    for c in dt_configs(tier, seed):
        cases.append((c, 'udp'))
        cases.append((c, 'tcp'))
    # rated powers around the 16-bit sign boundary and at the top of the register's range, on inverters that refuse nothing
    from ..configs import ET_TAGS
    for tag in ET_TAGS:
        for p in (32767, 32768, 40000, 65535):
            for bm in (0, 2):
                cases.append((dict(family='ET', tag=tag, power=p, refused=(), battery_mode=bm), 'udp'))
    for c in es_configs(tier, seed):
        cases.append((c, 'udp'))
    # inverters that refuse one block READ as such (by its start and length) and serve the other reads of the same range:
    # every subset of the three meter block reads and the battery / MPPT reads, on the models that use them
    import itertools
    shapes = ((36000, 58), (36000, 125), (35301, 61), (37000, 24), (39000, 22))      # (the 45-register meter read is not optional)
    for tag, p in (('ETT', 10000), ('ETU', 15000), ('25KET', 25000), ('ETU', 3000)):
        for r in (1, 2):
            for sub in itertools.combinations(shapes, r):
                cases.append((dict(family='ET', tag=tag, power=p, refused=(), battery_mode=2, refused_requests=sub), 'udp'))
    # every value the battery-mode word can take (the library asks only whether it is zero), with and without refusals
    for tag, p in (('ETU', 3000), ('ETT', 10000), ('25KET', 25000)):
        for bm in (1, 3, 4, 5, 6, 0x7FFF, 0xFFFF):
            for rf in ((), ('battery',), ('battery2',)):
                cases.append((dict(family='ET', tag=tag, power=p, refused=rf, battery_mode=bm), 'udp'))
    # the firmware version words of the device info, swept one at a time (no branch of the poll may hang on them)
    from ..configs import firmware_configs
    for c in firmware_configs():
        cases.append((c, 'udp'))
    return cases


def run(tier, seed, rep):
    # histories of public API calls and device changes on one object, then probes of the API-level properties
    from .. import api_sessions
    _api = api_sessions.explore(tier, seed, {'C15'})
    rep.add_many([v for v in _api['violations'] if v['prop'] == 'C15'])
    nmc = model_class_stage(rep)
    cases = all_cases(tier, seed)
    k = 64
    chunks = [cases[i::k] for i in range(k)]
    total = 0
    ocs = {}
    states = set()
    allres = []
    for n, oc, res, sts in pmap(job, chunks):
        total += n
        states |= sts
        for kk, v in oc.items():
            ocs[kk] = ocs.get(kk, 0) + v
        allres.extend(res)
    dyn_cfgs = [dict(family='ET', tag=t, power=p, refused=(), battery_mode=bm)
                for t, p in (('ETU', 3000), ('ETU', 25000), ('ETT', 10000), ('EHU', 5000), ('HSB', 5000))
                for bm in (0, 2)]
    ndyn = 0
    dbest = {}
    for n, res in pmap(job_dyn, [(c, 2 if tier == 'quick' else 3) for c in dyn_cfgs]):
        ndyn += n
        for v in res:
            k = tuple(v['key'].split('/')[:2])
            if k not in dbest or len(v['replay']['changes']) < len(dbest[k]['replay']['changes']):
                v['n'] = v.get('n', 1) + (dbest[k]['n'] if k in dbest else 0)
                dbest[k] = v
    rep.add_many(list(dbest.values()))
    total += ndyn
    tbest = {}
    for n, res in pmap(job_transient, [(c,) for c in transient_configs()]):
        total += n
        ndyn += n
        for v in res:
            k = tuple(v['key'].split('/')[:3])
            if k not in tbest or len(v['replay']['cfg']['refused']) < len(tbest[k]['replay']['cfg']['refused']):
                v['n'] = v.get('n', 1) + (tbest[k]['n'] if k in tbest else 0)
                tbest[k] = v
    rep.add_many(list(tbest.values()))
    # one key per (clause, family): the smallest refused subset that fails (the others are the same cause)
    best = {}
    for v in allres:
        k = tuple(v['key'].split('/')[:2])
        cnt = best.get(k, (None, 0))[1] + v.get('n', 1)
        cur = best.get(k, (None, 0))[0]
        if cur is None or len(v['replay']['cfg']['refused']) < len(cur['replay']['cfg']['refused']):
            cur = v
        best[k] = (cur, cnt)
    for v, cnt in best.values():
        v['n'] = cnt
        rep.add_many([v])
    cov = dict(model_class_polls=nmc, api_session_histories=_api['histories'], api_session_states=_api['states'],
               states=len(states), transitions=total * 4, executions=total, traces_validated_against_impl=total,
               configurations=total, dynamic_histories=ndyn, distinct_outcome_classes=len(ocs),
               outcome_classes={str(k): v for k, v in sorted(ocs.items(), key=str)[:30]}, exhaustive=True,
               bound=('every ET/DT/ES model tag' if tier == 'thorough' else 'one ET tag per predicate class, every DT/ES tag') +
                     ' x rated power {3000,14999,15000,24999,25000,50000} x every subset of refused optional blocks x '
                     'battery_mode {0,2} x 3 consecutive calls (UDP; reduced product on TCP)',
               state_definition='(family, predicate classes of the serial, power, refused subset, battery, transport, '
                                'outcome) ; transitions = API calls (device info + 3 runtime reads)',
               samples=[dict(cfg=cases[0][0]), dict(cfg=cases[len(cases) // 2][0])])
    return dict(level='model_checking', coverage=cov,
                assumptions=['device model mc/devsim.py: refused blocks answer exception 2; count 0 / >125 exception 3',
                             'serial numbers built so that they contain the intended tag (independent substring scan)'])


def replay(r):
    if r.get('part') == 'api-session':
        from .. import api_sessions
        out = api_sessions.replay(r)
        out['violations'] = [m for m in out['violations'] if m[0] == 'C15']
        return out
    if r.get('part') == 'model-class':
        from ..findings import Report
        rp = Report('C15')
        model_class_stage(rp)
        return dict(violations=sorted(rp.by_key))
    cfg = r['cfg']
    cfg['refused'] = tuple(cfg['refused'])
    if 'changes' in r:
        vio, outs, _ = run_dynamic(cfg, r['changes'])
        return dict(outcomes=outs, violations=vio)
    if 'lost' in r:
        vio, outs, _ = run_transient(cfg, r['lost'])
        return dict(outcomes=outs, violations=vio)
    vio, oc = run_config(cfg, r['transport'])
    return dict(outcome=[str(x) for x in oc], violations=vio)
