"""C05 - retry budget and timeout are per request and exactly as configured (DESIGN 3, C05)."""
from __future__ import annotations

import collections

from .. import world
from ..explore import Stats, pmap, h
from ..kernel import KLoop
from ..peer import ScriptPeer
from ..proto import Session

TOL = 1e-6


def letters_for(cfg):
    R, tr = cfg['R'], cfg['transport']
    L = collections.OrderedDict()
    L['success'] = (['valid'], [])
    for k in range(1, R + 1):
        L[f'success-after-{k}'] = (['drop'] * k + ['valid'], [])
    L['exhausted'] = (['drop'] * (R + 1), [])
    L['rejected'] = (['exc2'], [])
    for k in range(1, R + 1):
        L[f'rejected-after-{k}'] = (['drop'] * k + ['exc2'], [])
    L['late-answer-exhausted'] = (['valid@1.5T'] + ['drop'] * R, [])
    if tr == 'udp':
        L['senderr'] = (['senderr-netunreach'], [])
        L['icmp'] = (['icmp'], [])
        L['garbage-then-valid'] = (['garbage', 'valid'], [])
        L['fragment-only'] = (['frag1'] + ['drop'] * R, [])
        # connecting the datagram socket fails (no route, interface down): at every attempt / at the first attempt only
        L['connect-netunreach'] = 'udpconn', ['netunreach'] * (R + 1)
        L['connect-netunreach-once'] = 'udpconn', ['netunreach']
    else:
        L['rst'] = (['rst'] + ['drop'] * R, [])
        L['fin'] = (['fin'] + ['drop'] * R, [])
        L['invalid'] = (['garbage'], [])
        L['connect-refused'] = ([], ['refused'] * (R + 1))
        L['connect-unreachable'] = ([], ['unreachable'] * (R + 1))
        if R:
            # the first transmission is lost, re-establishing the connection fails (each way a connect can fail)
            for o in ('refused', 'unreachable', 'hang'):
                L[f'drop+reconnect-{o}'] = (['drop'] * (R + 1), ['ok'] + [o] * R)
        L['valid+fin'] = (['valid+fin'], [])
    L['caller-cancels@.5T'] = 'cancel', 0.5 * cfg['T']
    if R:
        L['caller-cancels@1.5T'] = 'cancel', 1.5 * cfg['T']
    L['idle.3T'] = 'idle', 0.3 * cfg['T']
    L['idle2T'] = 'idle', 2 * cfg['T']
    L['NEWLOOP'] = 'newloop', None
    L['NEWLOOP-OPEN'] = 'newloop-open', None
    L['close'] = 'close', None
    return L


def apply(s: Session, L, name):
    a, b = L[name]
    if a == 'idle':
        s.idle(b)
    elif a == 'newloop':
        s.newloop()
    elif a == 'newloop-open':
        s.newloop_open()
    elif a == 'close':
        s.close()
    elif a == 'udpconn':
        s.peer.forced_udp_conn = list(b)
        o = s.request(['drop'] * (s.cfg['R'] + 1))
        s.peer.forced_udp_conn = []
        s.drain()
        return o
    elif a == 'cancel':
        s.request_cancelled(['drop'] * (s.cfg['R'] + 2), b)
        s.drain()
    else:
        o = s.request(a, b)
        s.drain()  # answers still in flight belong to this request, not to the silent probe
        return o


def probe_monitor(cfg, obs):
    T, R = cfg['T'], cfg['R']
    out = []
    if obs.result[0] == 'hang':
        return [('probe:terminates', obs.result[1])]
    ts = [t for t, _, _ in obs.txs]
    if len(ts) != R + 1:
        out.append(('probe:R+1-transmissions', f'{len(ts)} transmissions, R={R}'))
    body = {d[2:] if cfg['transport'] == 'tcp' else d for _, _, d in obs.txs}
    if len(body) > 1:
        out.append(('probe:identical', ''))
    lat = 0.001 if cfg['transport'] == 'tcp' else 0.0
    for a, b in zip(ts, ts[1:]):
        # a reconnect (TCP) adds the kernel's connect latency
        if abs((b - a) - T) > TOL and abs((b - a) - (T + lat)) > TOL:
            out.append(('probe:spacing=T', f'{b - a:.6f} instead of {T}'))
            break
    if ts and abs((obs.t1 - ts[-1]) - T) > TOL:
        out.append(('probe:failure-at-last+T', f'{obs.t1 - ts[-1]:.6f} after last tx instead of {T}'))
    if obs.result[0] != 'exc' or obs.result[1] not in ('RequestFailedException', 'MaxRetriesException'):
        out.append(('probe:outcome', str(obs.result[:2])))
    return out


def run_history(cfg, hist, probe=True):
    L = letters_for(cfg)
    s = Session(cfg)
    s.hung = []
    for name in hist:
        o = apply(s, L, name)
        if o is not None and o.result[0] == 'hang':
            s.hung.append(name)       # an attempt of an earlier request never expired
    f = s.fp()
    if not probe:
        return s, f, None
    obs = s.request(['drop'] * (cfg['R'] + 3), in_cancelled_task=bool(cfg.get('probe_in_cancelled_task')))
    return s, f, obs


def shrink_hist(cfg, hist, clause):
    cur = list(hist)
    changed = True
    while changed:
        changed = False
        for i in range(len(cur)):
            t = cur[:i] + cur[i + 1:]
            s_, _, obs = run_history(cfg, t)
            if any(c == clause for c, _ in probe_monitor(cfg, obs) + ([('every-attempt-expires', '')] if s_.hung else [])):
                cur = t
                changed = True
                break
    return cur


def job(j):
    cfg, depth = j
    L = letters_for(cfg)
    names = list(L)
    st = Stats()
    seen = {}
    frontier = collections.deque([[]])
    vio = {}
    fix = True
    while frontier:
        hist = frontier.popleft()
        s, f, obs = run_history(cfg, hist)
        st.executions += 1
        mon = probe_monitor(cfg, obs)
        if s.hung:
            mon = mon + [('every-attempt-expires', f'request {s.hung[0]!r} of the history never ended: an attempt without a valid answer must '
                                                   f'end one timeout after its transmission')]
        oc = (obs.result[:2], len(obs.txs))
        st.outcomes[oc] = st.outcomes.get(oc, 0) + 1
        for clause, cause in mon:
            vio.setdefault(clause, []).append((hist, cause))
        if len(st.samples) < 2 and len(hist) >= 2:
            st.samples.append(dict(cfg=cfg, history=hist, probe_tx=[round(t, 6) for t, _, _ in obs.txs],
                                   probe_done=round(obs.t1, 6), probe_result=obs.result[:2]))
        if f in seen:
            continue
        seen[f] = hist
        st.states.add(f)
        if len(hist) >= depth:
            fix = False
            continue
        for nm in names:
            st.edges.add((f, nm))
            frontier.append(hist + [nm])
    out = []
    for clause, lst in vio.items():
        hist, cause = lst[0]
        mn = shrink_hist(cfg, hist, clause)
        _, _, o2 = run_history(cfg, mn)
        cell = f"{cfg['transport']}/ka={int(cfg['ka'])}" + ('/probe-in-cancelled-task' if cfg.get('probe_in_cancelled_task') else '') + \
            ('/same-command-object' if cfg.get('same_command') else '')
        key = f"{clause}/{cell}/after:{'+'.join(sorted(set(x.split('-after-')[0] for x in mn))) or 'nothing'}"
        s2, _, _ = run_history(cfg, mn)
        if not any(c == clause for c, _ in probe_monitor(cfg, o2) + ([('every-attempt-expires', '')] if s2.hung else [])):
            key = f"{clause}/{cell}/order-dependent"
            cause = f'{cause}; ' + 'failed during exploration but not on a fresh replay: the outcome depends on earlier executions in the same process (state outside the objects under test leaks between executions)'
        out.append(dict(key=key, clause=clause, n=len(lst), replay=dict(part='A', cfg=cfg, history=mn),
                        detail=dict(history=mn, cause=cause, probe_tx=[round(t, 6) for t, _, _ in o2.txs],
                                    probe_done=round(o2.t1, 6), R=cfg['R'], T=cfg['T'])))
    st.violations = out
    st.capped = not fix and False
    return st, fix, len(seen)


# ------------------------------------------------------------------ part B: entry points

class EntryPeer(ScriptPeer):
    """Silent, or answers only the first request (discovery / device info) and is silent afterwards."""

    def __init__(self, T, mode, serial=b'9010KETU000W0000'):
        super().__init__('udp', T)
        self.mode = mode
        self.serial = serial
        self.answered = 0

    def on_send(self, sock, data):
        self.sent.append((self.kern.now, sock.fd, data, self.mode))
        if self.mode == 'first' and self.answered == 0:
            from .. import wire
            self.answered = 1
            try:
                rq = wire.parse_request(data)
            except wire.BadRequest:
                return
            if rq['framing'] == 'aa55' and rq['cmd'] == b'\x01\x02':
                info = bytearray(77)
                info[0:5] = b'1414E'
                info[5:15] = b'GW10K-ET  '
                info[31:47] = self.serial
                info[51:63] = b'02041-14-S00'
                self.kern.at(self.kern.now + 0.001, sock, ('data', wire.aa55_resp('0182', bytes(info))))


def groups(sent, tcp):
    out = []
    for t, fd, d, _ in sent:
        key = d[2:] if tcp else d
        if out and out[-1][0] == key:
            out[-1][1].append(t)
        else:
            out.append((key, [t]))
    return out


def entry_cases(tier):
    import itertools
    grid = list(itertools.product((1, 2, 3, 0.5), (0, 1, 3))) if tier == 'thorough' else [(1, 0), (2, 1), (3, 3), (1.5, 1)]
    fams = ['ET', 'EH', 'BT', 'BH', 'ES', 'EM', 'BP', 'DT', 'MS', 'NS', 'XS']
    for (T, R) in grid:
        for mode in ('silent', 'first'):
            for fam in fams:
                for port in (8899, 502):
                    yield dict(entry='connect', family=fam, port=port, T=T, R=R, mode=mode)
            for port in (8899, 502):
                yield dict(entry='connect-discover', port=port, T=T, R=R, mode=mode)
                yield dict(entry='discover', port=port, T=T, R=R, mode=mode)
                if mode == 'first':
                    # the identification answer names another family (each has its own branch in discover())
                    for tag in ('DTU', 'DSN', 'ESU', 'EMU', 'BPU', 'EHU', 'XYZ'):
                        yield dict(entry='connect-discover', port=port, T=T, R=R, mode=mode, serial_tag=tag)
                        yield dict(entry='discover', port=port, T=T, R=R, mode=mode, serial_tag=tag)
    for mode in ('silent',):
        yield dict(entry='search', T=1, R=0, mode=mode, port=48899)


def run_entry(case):
    world.reset()
    peer = EntryPeer(case['T'], case['mode'], **({'serial': ('9010K' + case['serial_tag'] + '000W0000').encode()} if case.get('serial_tag') else {}))
    loop = KLoop(peer)
    return _entry_call(case, peer, loop)


def run_entry_seq(cases):
    """Several entry-point calls one after the other in ONE process state (same endpoint, different timeout/retries):
    every call is judged by the values IT was given."""
    world.reset()
    peer = EntryPeer(cases[0]['T'], cases[0]['mode'])
    loop = KLoop(peer)
    out = []
    for i, case in enumerate(cases):
        peer.T, peer.mode, peer.answered = case['T'], case['mode'], 0
        n0 = len(peer.sent)
        t0 = loop.time()
        vio, info = _entry_call(case, peer, loop, n0, t0)
        out.append((vio, info))
    return out


def _entry_call(case, peer, loop, n0=0, t0=0.0):
    g = world.goodwe
    T, R = case['T'], case['R']

    async def main():
        try:
            if case['entry'] == 'connect':
                return ('ok', type(await g.connect('10.0.0.2', case['port'], case['family'], 0, T, R)).__name__)
            if case['entry'] == 'connect-discover':
                return ('ok', type(await g.connect('10.0.0.2', case['port'], None, 0, T, R)).__name__)
            if case['entry'] == 'discover':
                return ('ok', type(await g.discover('10.0.0.2', case['port'], T, R)).__name__)
            return ('ok', await g.search_inverters())
        except BaseException as e:  # noqa: BLE001
            return ('exc', type(e).__name__)
    # request boundaries: every ProtocolCommand.execute() call is one request (wrapped from outside)
    gpm = world.gp
    orig = gpm.ProtocolCommand.execute
    spans = []

    async def traced(self, protocol):
        i0 = len(peer.sent)
        try:
            return await orig(self, protocol)
        finally:
            spans.append((i0, len(peer.sent), protocol.timeout, protocol.retries))
    gpm.ProtocolCommand.execute = traced
    try:
        st, res = loop.run(main())
    finally:
        gpm.ProtocolCommand.execute = orig
    tcp = case['port'] == 502
    gr = []
    for (i0, i1, _, _) in spans:
        gr.append((peer.sent[i0][2] if i1 > i0 else b'', [t for t, _, _, _ in peer.sent[i0:i1]]))
    vio = []
    if st == 'hang':
        vio.append(('entry:terminates', str(res)))
    if sum(i1 - i0 for i0, i1, _, _ in spans) != len(peer.sent) - n0:
        vio.append(('entry:transmission-outside-request', ''))
    wantT, wantR = (1, 0) if case['entry'] == 'search' else (T, R)
    lat = 0.001 if tcp else 0.0
    for gi, (key, ts) in enumerate(gr):
        answered = case['mode'] == 'first' and gi == 0
        if answered:
            continue
        if len(ts) != wantR + 1:
            vio.append(('entry:retries+1-per-probe', f'probe {gi}: {len(ts)} transmissions, retries={wantR}'))
            break
        bad = [b - a for a, b in zip(ts, ts[1:]) if abs(b - a - wantT) > TOL and abs(b - a - wantT - lat) > TOL]
        if bad:
            vio.append(('entry:spacing=timeout', f'probe {gi}: spacing {bad[0]:.6f}, timeout={wantT}'))
            break
    # documented unit address in Modbus probes
    for t, fd, d, _ in peer.sent[n0:]:
        if d[:2] == b'\xaa\x55' or case['entry'] == 'search':
            continue
        unit = d[6] if tcp else d[0]
        if unit not in (0xF7, 0x7F):
            vio.append(('entry:unit-address', f'unit {unit:#x}'))
            break
    if st != 'hang' and case['entry'] == 'search' and case['mode'] == 'silent':
        if abs(loop.time() - t0 - 1.0) > TOL:
            vio.append(('entry:search-1s', f'{loop.time()}'))
    return vio, dict(case=case, result=res, probes=[(k.hex()[:24], len(ts), [round(b - a, 6) for a, b in zip(ts, ts[1:])])
                                                   for k, ts in gr])


def seq_cases(tier):
    import itertools
    base = [dict(entry='connect', family='ET', port=8899), dict(entry='connect', family='DT', port=8899),
            dict(entry='connect', family='ES', port=8899), dict(entry='connect', family='ET', port=502),
            dict(entry='discover', port=8899), dict(entry='discover', port=502), dict(entry='connect-discover', port=8899)]
    grids = [((1, 3), (2, 1)), ((2, 0), (1, 2)), ((1, 1), (1, 1))] if tier == 'thorough' else [((1, 3), (2, 1)), ((2, 0), (1, 2))]
    for a, b in itertools.product(base, repeat=2):
        for (ga, gb) in grids:
            for ma in (('silent', 'first') if tier == 'thorough' else ('silent',)):
                yield [dict(a, T=ga[0], R=ga[1], mode=ma), dict(b, T=gb[0], R=gb[1], mode='silent')]


def job_seq(cases):
    return run_entry_seq(cases)


def job_b(case):
    vio, info = run_entry(case)
    vio2, _ = run_entry(case)
    if vio != vio2:
        vio = [('entry:order-dependent', 'two runs of the same entry point differ: ' + 'failed during exploration but not on a fresh replay: the outcome depends on earlier executions in the same process (state outside the objects under test leaks between executions)')]
    return vio, info


def run(tier, seed, rep):
    # histories of several requests on one object under the full fault alphabet (mc/sessions.py)
    from .. import sessions
    _ses = sessions.explore_sessions(tier, seed, {'C05'}, light=False)
    rep.add_many([v for v in _ses.violations if v['prop'] == 'C05'])
    grid = [(1, 0), (1, 1), (1, 2), (1, 3), (2, 1), (0.5, 2)] if tier == 'thorough' else [(1, 1), (1, 2), (2, 1)]
    depth = 8 if tier == 'thorough' else 4
    jobs = [(dict(transport=tr, ka=ka, T=T, R=R), depth)
            for tr in ('udp', 'tcp') for ka in (False, True) for (T, R) in grid]
    # every request of the history and the probe execute the very same command object
    jobs += [(dict(transport=tr, ka=ka, T=1, R=2, same_command=True), min(depth, 3))
             for tr in ('udp', 'tcp') for ka in (False, True)]
    # the probe issued from a task that swallowed a cancellation before (Task.cancelling() > 0)
    jobs += [(dict(transport=tr, ka=ka, T=1, R=2, probe_in_cancelled_task=True), min(depth, 2))
             for tr in ('udp', 'tcp') for ka in (False, True)]
    total = Stats()
    per = []
    fixpoints = 0
    for j, (st, fix, nstates) in zip(jobs, pmap(job, jobs)):
        total.merge(st)
        fixpoints += bool(fix)
        per.append(dict(cfg=j[0], depth=j[1], histories=st.executions, states=nstates, fixpoint_below_depth=fix))
    rep.add_many(total.violations)
    cases = list(entry_cases(tier))
    nb = 0
    eoc = {}
    bsamples = []
    for case, (vio, info) in zip(cases, pmap(job_b, cases, chunksize=4)):
        nb += 1
        eoc[str(info['result'][:2])] = eoc.get(str(info['result'][:2]), 0) + 1
        if len(bsamples) < 3 and case['entry'] in ('discover', 'search'):
            bsamples.append(info)
        for clause, cause in vio:
            cell = case['entry'] + ('/tcp' if case['port'] == 502 else '/udp') + '/' + case['mode'] + \
                (f"/identified-as:{case['serial_tag']}" if case.get('serial_tag') else '')
            rep.add(f'{clause}/{cell}', clause, dict(part='B', case=case), dict(cause=cause, **info))
    seqs = list(seq_cases(tier))
    nseq = 0
    for cs, outs in zip(seqs, pmap(job_seq, seqs, chunksize=4)):
        nseq += 1
        for i, (vio, info) in enumerate(outs):
            for clause, cause in vio:
                c = cs[i]
                cell = c['entry'] + ('/tcp' if c['port'] == 502 else '/udp') + (f"/after:{cs[0]['entry']}" if i else '/first-of-two')
                rep.add(f'{clause}/{cell}', clause, dict(part='S', cases=cs), dict(cause=cause, call=i, **info))
    cov = dict(entry_point_sequences=nseq, session_histories=_ses.executions, session_states=len(_ses.states), session_choice_points=_ses.choice_points,
               states=len(total.states), transitions=len(total.edges), executions=total.executions + nb,
               traces_validated_against_impl=total.executions + nb,
               histories=total.executions, entry_point_cases=nb, entry_outcomes=eoc,
               distinct_outcome_classes=len(total.outcomes), exhaustive=True,
               bound=f'BFS over request-outcome histories of length <= {depth} + silent probe, fingerprint '
                     f'de-duplication at request boundaries; entry points: complete finite grid',
               fixpoint_reached_in=f'{fixpoints}/{len(jobs)} configurations', per_config=per,
               samples=total.samples[:4] + bsamples)
    return dict(level='model_checking', coverage=cov,
                assumptions=['CPython 3.12 selector event loop semantics', 'kernel model of mc/kernel.py',
                             '"full timeout" is judged through the spacing of the probe\'s transmissions'])


def replay(r):
    if r.get('part') == 'session':
        from .. import sessions
        out = sessions.replay(r)
        out['violations'] = [m for m in out['violations'] if m[0] == 'C05']
        return out
    if r['part'] == 'A':
        _, _, obs = run_history(r['cfg'], r['history'])
        return dict(history=r['history'], probe_tx=[t for t, _, _ in obs.txs], probe_done=obs.t1,
                    result=obs.result[:3], violations=probe_monitor(r['cfg'], obs))
    if r['part'] == 'S':
        outs = run_entry_seq(r['cases'])
        return dict(calls=[i for _, i in outs], violations=[v for vio, _ in outs for v in vio])
    vio, info = run_entry(r['case'])
    return dict(info=info, violations=vio)
