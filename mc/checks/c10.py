"""C10 - at most one transport is open per inverter and none is leaked (DESIGN 3, C10)."""
from __future__ import annotations

import collections

from .. import world
from ..explore import Stats, pmap
from ..peer import ScriptPeer
from ..proto import Session

TOL = 1e-9


class WatchPeer(ScriptPeer):
    """Evaluates the state invariant at every transmission and connect (i.e. inside running requests)."""

    nb = None       # a second protocol object whose transport is not the business of the object under test

    def _mine(self):
        other = getattr(self.nb, '_transport', None)
        return sum(1 for t in self.kern.transports if not t.is_closing() and t is not other)

    def on_send(self, sock, data):
        self.watch.append(('tx', self._mine(), len(self.kern.socks)))
        return super().on_send(sock, data)

    def on_connect(self):
        self.watch.append(('connect', self._mine(), len(self.kern.socks)))
        return super().on_connect()


def ops_for(cfg):
    R, tr = cfg['R'], cfg['transport']
    O = collections.OrderedDict()
    O['ok'] = (['valid'], [])
    O['exhausted'] = (['drop'] * (R + 1), [])
    O['late'] = (['valid@1.5T'] + ['drop'] * R, [])
    O['garbage'] = (['garbage', 'valid'], [])
    O['rejected'] = (['exc2'], [])
    O['fragment'] = (['frag1', 'valid'], [])
    if tr == 'udp':
        O['connect-error'] = ('udp-connect-error', None)
        O['icmp'] = (['icmp'], [])
        O['senderr'] = (['senderr-hostunreach'], [])
        O['ok+icmp'] = (['valid+icmp'], [])
    else:
        O['fin'] = (['fin', 'valid'], [])
        O['rst'] = (['rst', 'valid'], [])
        O['ok+fin'] = (['valid+fin'], [])
        O['ok+rst'] = (['valid+rst'], [])
        O['refused'] = ([], ['refused'] * (R + 1))
        O['connect-hang'] = (['valid'], ['hang'])
    O['close'] = ('close', None)
    O['NEWLOOP'] = ('newloop', None)
    O['NEWLOOP-OPEN'] = ('newloop-open', None)
    O['KA-TOGGLE'] = ('ka-toggle', None)       # Inverter.set_keep_alive(not current) between two requests
    O['idle'] = ('idle', 2 * cfg['T'])
    return O


def n_open(s):
    other = getattr(getattr(s.peer, 'nb', None), '_transport', None)
    return sum(1 for t in s.kern.transports if not t.is_closing() and t is not other)


def leaked_sockets(s):
    """descriptor level: after garbage collection every open socket must belong to an open transport"""
    import gc
    gc.collect(1)
    if len(s.kern.socks) - n_open(s) > 0:
        gc.collect()
    pk = s.parked_fds() if hasattr(s, 'parked_fds') else set()
    other = getattr(getattr(s.peer, 'nb', None), '_transport', None)
    if other is not None and not other.is_closing() and getattr(other, '_sock', None) is not None:
        pk = set(pk) | {other._sock.fileno()}
    return len([fd for fd in s.kern.socks if fd not in pk]) - n_open(s)


def run_history(cfg, hist, final=True):
    s = Session(cfg, peer=WatchPeer(cfg['transport'], cfg['T'], None))
    s.peer.watch = []
    O = ops_for(cfg)
    vio = []
    nb = None
    if cfg.get('neighbour'):
        # a second protocol object for the same inverter (keep-alive on) lives in the process: it is used once at the start
        # and FIRST after every change of the event loop - the object under test must still notice the change itself
        from ..proto import make_protocol, _exec
        nb = make_protocol(cfg['transport'], cfg['T'], cfg['R'], True)
        s.peer.nb = nb

        def nb_request():
            saved = s.peer.forced
            s.peer.forced = ['valid']
            s.loop.run(_exec(nb.read_command(0x7000, 2), nb))
            s.peer.forced = saved
            s.peer.watch.clear()
        nb_request()
    last_ok_fd = None
    log_mark = 0
    for i, name in enumerate(hist):
        a, b = O[name]
        s.peer.watch.clear()
        # the peer dropping the connection (FIN / RST / ICMP error read from that socket) ends the obligation to
        # reuse it: "after a dropped connection the next request transparently reconnects"
        if last_ok_fd is not None and any(e[0] == 'rx' and e[1] == last_ok_fd and e[3] in ('err', 'eof')
                                          for e in s.kern.log[log_mark:]):
            last_ok_fd = None
        log_mark = len(s.kern.log)
        if a == 'close':
            cr = s.close()
            if cr and cr[0] == 'exc':
                vio.append(('closed-after-close()', f'close() raised {cr[1]}: {cr[2]}'))
            if n_open(s) != 0:
                vio.append(('closed-after-close()', f'{n_open(s)} open after close()'))
            last_ok_fd = None
        elif a == 'newloop':
            s.newloop()
            last_ok_fd = None
            if nb is not None:
                nb_request()
        elif a == 'newloop-open':
            s.newloop_open()
            last_ok_fd = None
        elif a == 'udp-connect-error':
            s.peer.forced_udp_conn = ['netunreach'] * (cfg['R'] + 1)
            obs = s.request(['valid'], [])
            s.peer.forced_udp_conn = []
            last_ok_fd = None
            if n_open(s) > 1:
                vio.append(('at-most-one', f'{n_open(s)} open after a failed connect'))
            if obs.result[0] == 'hang':
                vio.append(('terminates', obs.result[1]))
        elif a == 'ka-toggle':
            s.p.keep_alive = not s.p.keep_alive
            last_ok_fd = None
        elif a == 'idle':
            s.idle(b)
            if n_open(s) > 1:
                vio.append(('at-most-one', f'{n_open(s)} open while idle'))
        else:
            obs = s.request(a, b)
            if any(w[1] > 1 for w in s.peer.watch):
                vio.append(('at-most-one', f'{max(w[1] for w in s.peer.watch)} transports open during request {name}'))
            if any(w[0] == 'tx' and w[1] != 1 for w in s.peer.watch):
                pass  # a transmission always goes through exactly one open transport (informational)
            if n_open(s) > 1:
                vio.append(('at-most-one', f'{n_open(s)} open after request {name}'))
            if not s.p.keep_alive and n_open(s) != 0:
                vio.append(('keepalive-off:closed-after-request', f'{n_open(s)} open after request {name} ({obs.result[0]})'))
            if last_ok_fd is not None and any(e[0] == 'rx' and e[1] == last_ok_fd and e[3] in ('err', 'eof')
                                              for e in s.kern.log[log_mark:]):
                last_ok_fd = None
            if s.p.keep_alive and obs.result[0] == 'ok' and name == 'ok' and obs.txs:
                fd = obs.txs[-1][1]
                if last_ok_fd is not None and fd != last_ok_fd:
                    vio.append(('keepalive-on:transport-reused', f'socket {fd} after {last_ok_fd}'))
                last_ok_fd = fd
            else:
                last_ok_fd = None
            if obs.result[0] == 'hang':
                vio.append(('terminates', obs.result[1]))
        if a in ('close', 'newloop', 'idle') or i == len(hist) - 1:
            k = leaked_sockets(s)
            if k > 0:
                vio.append(('no-socket-leak', f'{k} socket(s) open without an open transport after {name}'))
    f = s.fp(extra=(last_ok_fd is not None,))
    if final:
        s.peer.watch.clear()
        obs = s.request(['valid'], [])
        if obs.result[0] != 'ok' or len(obs.txs) != 1:
            vio.append(('next-request-works', f'{obs.result[:2]} with {len(obs.txs)} transmissions'))
        if any(w[1] > 1 for w in s.peer.watch) or n_open(s) > 1:
            vio.append(('at-most-one', 'during the final healthy request'))
        if not s.p.keep_alive and n_open(s) != 0:
            vio.append(('keepalive-off:closed-after-request', 'after the final healthy request'))
        cr = s.close()
        if cr and cr[0] == 'exc':
            vio.append(('closed-after-close()', f'the final close() raised {cr[1]}: {cr[2]}'))
        s.service_parked()
        if n_open(s) != 0:
            vio.append(('closed-after-close()', f'{n_open(s)} open after final close()'))
        k = leaked_sockets(s)
        if k > 0:
            vio.append(('no-socket-leak', f'{k} socket(s) still open after the final close()'))
    return vio, f, s


def shrink(cfg, hist, clause):
    cur = list(hist)
    changed = True
    while changed:
        changed = False
        for i in range(len(cur)):
            t = cur[:i] + cur[i + 1:]
            if any(c == clause for c, _ in run_history(cfg, t)[0]):
                cur = t
                changed = True
                break
    return cur


def job(j):
    cfg, depth = j
    names = list(ops_for(cfg))
    st = Stats()
    seen = set()
    frontier = collections.deque([[]])
    vio = {}
    fix = True
    while frontier:
        hist = frontier.popleft()
        v, f, s = run_history(cfg, hist)
        st.executions += 1
        for clause, cause in v:
            vio.setdefault(clause, []).append((hist, cause))
        oc = tuple(sorted({c for c, _ in v}))
        st.outcomes[oc] = st.outcomes.get(oc, 0) + 1
        if f in seen:
            continue
        seen.add(f)
        st.states.add(f)
        if len(hist) >= depth:
            fix = False
            continue
        for nm in names:
            st.edges.add((f, nm))
            frontier.append(hist + [nm])
    out = []
    for clause, lst in vio.items():
        hist, cause = lst[0]
        mn = shrink(cfg, hist, clause)
        v2 = run_history(cfg, mn)[0]
        key = f"{clause}/{cfg['transport']}/ka={int(cfg['ka'])}/{'+'.join(sorted(set(mn))) or 'fresh'}" + ('/second-object-used-first-in-each-loop' if cfg.get('neighbour') else '')
        if not any(c == clause for c, _ in v2):
            key = f"{clause}/{cfg['transport']}/ka={int(cfg['ka'])}/order-dependent"
            v2 = [(clause, f'{cause}; ' + 'failed during exploration but not on a fresh replay: the outcome depends on earlier executions in the same process (state outside the objects under test leaks between executions)')]
        out.append(dict(key=key, clause=clause, n=len(lst), replay=dict(cfg=cfg, history=mn),
                        detail=dict(history=mn, cause=[c for cl, c in v2 if cl == clause][0])))
    st.violations = out
    if not st.samples:
        st.samples.append(dict(cfg=cfg, alphabet=names, states=len(seen)))
    return st, fix


def job_overlap(j):
    """Overlapping callers on one object (C06's harness: start offsets x per-transmission letters): the callers are
    serialised, so the transport clauses hold at every transmission and connect, after the last caller and after close()."""
    from . import c06
    from ..explore import explore, Ctx
    cfg, mode, bound = j
    cfg = dict(cfg, peer_cls=WatchPeer)
    st = Stats()
    vio = {}

    def judge(o):
        out = []
        if o['status'] == 'hang':
            return out
        if any(w[1] > 1 for w in o['watch']):
            out.append(('at-most-one', f"{max(w[1] for w in o['watch'])} transports open at a transmission / connect of overlapping callers"))
        if o['open_end'] > 1:
            out.append(('at-most-one', f"{o['open_end']} open after the overlapping callers completed"))
        if not cfg['ka'] and o['open_end'] != 0:
            out.append(('keepalive-off:closed-after-request', f"{o['open_end']} open after the overlapping callers completed"))
        if o['leaked'] > 0:
            out.append(('no-socket-leak', f"{o['leaked']} socket(s) open without an open transport after the overlapping callers completed"))
        for i, rr in sorted((o.get('second_round') or {}).items(), key=str):
            if rr[0] != 'ok' if isinstance(rr, tuple) else True:
                out.append(('next-request-works', f'overlapping callers again in the next event loop: caller {i} -> {rr}'))
                break
        if o['open_closed'] != 0 or o['leaked_closed'] > 0:
            out.append(('closed-after-close()', f"{o['open_closed']} transports / {o['leaked_closed']} stray sockets open after close()"))
        return out

    def on_exec(ctx, o):
        st.note(ctx, (o['status'], o['open_end']))
        for clause, cause in judge(o):
            vio.setdefault(clause, []).append((ctx.choices, cause))
    depth = (cfg['N'] - 1) + cfg['N'] * (cfg['R'] + 1) + 2
    n, capped = explore(lambda ctx: c06.run_one(cfg, ctx), depth=depth, deviations=bound if mode == 'deviations' else None, on_exec=on_exec)
    out = []
    for clause, lst in vio.items():
        lst.sort(key=lambda x: (sum(1 for c in x[0] if c), len(x[0]), x[0]))
        choices, cause = lst[0]
        key = f"{clause}/{cfg['transport']}/ka={int(cfg['ka'])}/overlapping-callers"
        rc = {k: v for k, v in cfg.items() if k != 'peer_cls'}
        out.append(dict(key=key, clause=clause, n=len(lst), replay=dict(part='overlap', cfg=rc, choices=choices),
                        detail=dict(cause=cause, callers=cfg['N'], choices=list(choices))))
    st.violations = out
    st.capped = capped
    return st


def run(tier, seed, rep):
    ov_jobs = []
    for tr in ('udp', 'tcp'):
        for ka in (False, True):
            ov_jobs.append((dict(transport=tr, ka=ka, T=1, R=1, N=2), 'product', None))
            ov_jobs.append((dict(transport=tr, ka=ka, T=1, R=1, N=2, second_round=True), 'deviations', 2))
            ov_jobs.append((dict(transport=tr, ka=ka, T=1, R=0, N=3), 'product' if tier == 'thorough' else 'deviations', None if tier == 'thorough' else 3))
    ov = Stats()
    for st in pmap(job_overlap, ov_jobs):
        ov.merge(st)
    rep.add_many(ov.violations)
    # histories of several requests on one object under the full fault alphabet (mc/sessions.py)
    from .. import sessions
    _ses = sessions.explore_sessions(tier, seed, {'C10'}, light=True)
    rep.add_many([v for v in _ses.violations if v['prop'] == 'C10'])
    depth = 4 if tier == 'thorough' else 3
    jobs = [(dict(transport=tr, ka=ka, T=1, R=R), depth) for tr in ('udp', 'tcp') for ka in (False, True)
            for R in ((0, 1, 2) if tier == 'thorough' else (1,))]
    jobs += [(dict(transport=tr, ka=True, T=1, R=1, neighbour=True), 2 if tier != 'thorough' else 3) for tr in ('udp', 'tcp')]
    k = seed % len(jobs)
    jobs = jobs[k:] + jobs[:k]
    total = Stats()
    fixes = 0
    per = []
    for j, (st, fix) in zip(jobs, pmap(job, jobs)):
        total.merge(st)
        fixes += bool(fix)
        per.append(dict(cfg=j[0], histories=st.executions, states=len(st.states), fixpoint_below_depth=fix))
    rep.add_many(total.violations)
    cov = dict(overlapping_caller_executions=ov.executions, session_histories=_ses.executions, session_states=len(_ses.states), session_choice_points=_ses.choice_points,
               states=len(total.states), transitions=len(total.edges), executions=total.executions,
               traces_validated_against_impl=total.executions, exhaustive=True,
               bound=f'BFS over histories of <= {depth} operations (requests with fault scripts, close(), new event '
                     f'loop, idle) with fingerprint de-duplication; invariant evaluated at every transmission, connect '
                     f'and operation boundary; every history ends with a healthy request and close()',
               fixpoint_reached_in=f'{fixes}/{len(jobs)} configurations', per_config=per,
               distinct_outcome_classes=len(total.outcomes), samples=total.samples[:3])
    return dict(level='model_checking', coverage=cov,
                assumptions=['a transport counts as closed from the moment close() was called on it (is_closing())',
                             'kernel model; CPython 3.12 transports; new loop = what asyncio.run() does'])


def replay(r):
    if r.get('part') == 'session':
        from .. import sessions
        out = sessions.replay(r)
        out['violations'] = [m for m in out['violations'] if m[0] == 'C10']
        return out
    if r.get('part') == 'overlap':
        from . import c06
        from ..explore import Ctx
        o = c06.run_one(dict(r['cfg'], peer_cls=WatchPeer), Ctx(r['choices']), fp=False)
        return dict(watch=o['watch'], open_end=o['open_end'], leaked=o['leaked'], open_after_close=o['open_closed'])
    v, _, _ = run_history(r['cfg'], r['history'])
    return dict(history=r['history'], violations=v)
