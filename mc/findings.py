"""Violations, replay artefacts, classification keys and the committed known-findings file."""
from __future__ import annotations

import json
import os
import re

ROOT = os.path.dirname(os.path.dirname(os.path.abspath(__file__)))
KNOWN_FILE = os.path.join(ROOT, 'KNOWN_FINDINGS.txt')
REPLAY_DIR = os.environ.get('MC_REPLAY_DIR') or os.path.join(ROOT, 'replays')

_LINE = re.compile(r'^(known|fixed):\s+property=(C\d+)\s+(?:(\S+)\s+)?key=(\S+)\s+::\s+(.*)$')


def load_known():
    """-> {(property, key): text} for 'known:' lines only ('fixed:' lines suppress nothing)."""
    out = {}
    if not os.path.exists(KNOWN_FILE):
        return out
    for line in open(KNOWN_FILE):
        line = line.strip()
        if not line or line.startswith('#'):
            continue
        m = _LINE.match(line)
        if not m:
            raise SystemExit(f'KNOWN_FINDINGS.txt: cannot parse line: {line!r}')
        kind, prop, _commit, key, text = m.groups()
        if kind == 'known':
            out[(prop, key)] = text
    return out


def _jsonable(o):
    if isinstance(o, (bytes, bytearray)):
        return {'hex': bytes(o).hex()}
    if isinstance(o, (set, frozenset)):
        return sorted(_jsonable(x) for x in o)
    if isinstance(o, tuple):
        return [_jsonable(x) for x in o]
    if isinstance(o, list):
        return [_jsonable(x) for x in o]
    if isinstance(o, dict):
        return {str(k): _jsonable(v) for k, v in o.items()}
    if isinstance(o, (int, float, str, bool)) or o is None:
        return o
    return repr(o)


def jsonable(o):
    return _jsonable(o)


class Report:
    """Collects violations of one check run, splits them into known findings and new violations."""

    def __init__(self, prop: str):
        self.prop = prop
        self.known = load_known()
        self.by_key = {}      # key -> list of violation dicts (first few kept)
        self.counts = {}

    def add(self, key: str, clause: str, replay: dict, detail=None):
        """key: classification key; replay: everything needed to re-run this one case without the explorer."""
        self.counts[key] = self.counts.get(key, 0) + 1
        lst = self.by_key.setdefault(key, [])
        if len(lst) < 3:
            lst.append(dict(key=key, clause=clause, replay=replay, detail=detail))

    def add_many(self, vios):
        for v in vios:
            self.counts[v['key']] = self.counts.get(v['key'], 0) + v.get('n', 1)
            lst = self.by_key.setdefault(v['key'], [])
            if len(lst) < 3:
                lst.append(v)

    def finish(self) -> tuple[int, int, list[str]]:
        """Write replay files, print KNOWN-FINDING / VIOLATION lines. -> (n_new_keys, n_known_keys, lines)"""
        lines = []
        new = known = 0
        os.makedirs(os.path.join(REPLAY_DIR, self.prop), exist_ok=True)
        for old in os.listdir(os.path.join(REPLAY_DIR, self.prop)):      # replay files of earlier runs are stale
            if old.endswith('.json'):
                try:
                    os.unlink(os.path.join(REPLAY_DIR, self.prop, old))
                except OSError:
                    pass
        for key in sorted(self.by_key):
            vs = self.by_key[key]
            if (self.prop, key) in self.known:
                known += 1
                lines.append(f'KNOWN-FINDING: property={self.prop} {self.known[(self.prop, key)]} '
                             f'[key={key}, {self.counts[key]} case(s) this run]')
                continue
            new += 1
            import hashlib
            safe = re.sub(r'[^A-Za-z0-9_.-]+', '_', key)[:80] + '-' + hashlib.md5(key.encode()).hexdigest()[:6]
            for n, v in enumerate(vs[:1]):
                path = os.path.join(REPLAY_DIR, self.prop, f'{safe}-{n}.json')
                with open(path, 'w') as f:
                    json.dump(_jsonable(dict(property=self.prop, **v, cases_this_run=self.counts[key])), f, indent=1)
                lines.append(f'VIOLATION property={self.prop} replay={path}')
                lines.append(f'  key={key} clause={v["clause"]} cases={self.counts[key]}')
        for ln in lines:
            print(ln, flush=True)
        return new, known, lines
