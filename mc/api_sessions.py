"""API session explorer: breadth-first search over histories of public API calls (reads, legal writes, mode changes)
and device-side changes on ONE inverter object against the device model, with state de-duplication.  After every
history a fixed battery of probes evaluates the API-level properties (C15-C19) from that - non-initial - state.

It generalises the hand-picked histories of the individual checks: whatever a short history of legal calls leaves
behind in the object (caches, flags, memoised commands, schedule types) is the start state of the probes.
"""
from __future__ import annotations

import collections

from . import world, refdec
from .configs import make_rig
from .devsim import ET_OPTIONAL
from .explore import h, pmap
from .sensor_enum import ECO_V1_BASE, SCHED_BASE

OM = world.goodwe.OperationMode

CONFIGS = [
    dict(name='ET-v2', family='ET', tag='ETU', power=10000, refused=(), battery_mode=2),
    dict(name='ET-745', family='ET', tag='ETT', power=25000, refused=(), battery_mode=2),
    dict(name='ET-v1', family='ET', tag='ETU', power=10000, refused=('eco_v2', 'peak_shaving'), battery_mode=2),
    dict(name='DT-3ph', family='DT', tag='DTU', power=10000, refused=(), battery_mode=0),
    dict(name='DT-1ph', family='DT', tag='DSN', power=3000, refused=(), battery_mode=0),
    dict(name='ES-aa55', family='ES', tag='ESU', power=5000, refused=(), battery_mode=0, firmware=b'1414E'),
    dict(name='ES-v2', family='ES', tag='ESU', power=5000, refused=(), battery_mode=0, firmware=b'2222E'),
]


def group_bytes(inv, which):
    v2 = type(inv._settings['eco_mode_1']).__name__ != 'EcoModeV1'
    if which == 'charge':
        return SCHED_BASE[1] if v2 else ECO_V1_BASE[1]
    return bytes.fromhex('0000173bfc7f00fa00640000') if v2 else ECO_V1_BASE[3]


def alphabet(fam):
    a = ['runtime', 'get_export', 'read_setting:grid_export_limit', 'read_sensor:first', 'set_export:1', 'set_export:5000',
         'write:grid_export_limit=3']
    if fam != 'DT':
        a += ['get_mode', 'get_dod', 'read_setting:work_mode', 'read_setting:eco_mode_1', 'read_setting:eco_mode_2_switch',
              'set_dod:99', 'set_dod:30', 'set_mode:GENERAL', 'set_mode:OFF_GRID', 'set_mode:ECO', 'set_mode:ECO_CHARGE',
              'set_mode:ECO_DISCHARGE', 'write:eco_mode_1=charge', 'write:eco_mode_1=other', 'write:eco_mode_2_switch=0',
              'dev:group1=peak-typed', 'dev:group1=undecodable']
    if fam == 'ET':
        a += ['read_sensor:work_mode', 'read_sensor:battery_modules', 'read_setting:battery_modules',
              'dev:battery-off', 'dev:battery-on', 'dev:refuse-mppt', 'dev:refuse-meter-ext2', 'dev:refuse-battery']
    a += ['dev:lose-next-request', 'env:neighbour', 'env:keep-alive-on', 'env:slow-device', 'env:new-loop']
    if fam != 'ES':
        a += ['dev:reject-next:3', 'dev:reject-next:6']
    return a


NEIGHBOUR = {'ET': dict(name='nb-ET-small', family='ET', tag='ETU', power=3000, refused=('eco_v2', 'peak_shaving'), battery_mode=0),
             'DT': dict(name='nb-DT-1ph', family='DT', tag='DSN', power=3000, refused=(), battery_mode=0),
             'ES': dict(name='nb-ES-v2', family='ES', tag='ESU', power=5000, refused=(), battery_mode=0, firmware=b'2222E')}


def neighbour(r, cfg):
    """Another inverter object of the same family but another model / firmware generation lives in the same process and
    is used through the public API (own device model, own event loop): configure, poll, read settings, change mode."""
    nb = NEIGHBOUR[cfg['family']]
    if nb['tag'] == cfg['tag'] and nb.get('firmware') == cfg.get('firmware') and nb['power'] == cfg['power']:
        nb = dict(nb, power=25000, tag='ETT') if cfg['family'] == 'ET' else dict(nb, tag='DTU') if cfg['family'] == 'DT' else dict(nb, firmware=b'1414E')
    r2 = make_rig(nb, fill=lambda a: (a * 17 + 5) % 2000, keep_world=True)
    i2 = r2.inv
    r2.call(i2.read_device_info)
    r2.call(i2.read_runtime_data)
    r2.call(i2.read_settings_data)
    if cfg['family'] != 'DT':
        r2.call(i2.set_operation_mode, OM.ECO_CHARGE, 30, 40)
        r2.call(i2.get_operation_mode)
    r2.call(i2.set_grid_export_limit, 777)
    r.neighbours = getattr(r, 'neighbours', 0) + 1


def do(r, cfg, name):
    inv, dev = r.inv, r.dev
    fam = cfg['family']
    k, _, arg = name.partition(':')
    if name == 'runtime':
        return r.call(inv.read_runtime_data)
    if name == 'get_export':
        return r.call(inv.get_grid_export_limit)
    if name == 'get_mode':
        return r.call(inv.get_operation_mode)
    if name == 'get_dod':
        return r.call(inv.get_ongrid_battery_dod)
    if k == 'read_setting':
        return r.call(inv.read_setting, arg)
    if k == 'read_sensor':
        return r.call(inv.read_sensor, world.listed(inv)[1].id_ if arg == 'first' else arg)
    if k == 'set_export':
        return r.call(inv.set_grid_export_limit, int(arg))
    if k == 'set_dod':
        return r.call(inv.set_ongrid_battery_dod, int(arg))
    if k == 'set_mode':
        if arg == 'ECO_CHARGE':
            return r.call(inv.set_operation_mode, OM.ECO_CHARGE, 45, 80)
        if arg == 'ECO_DISCHARGE':
            return r.call(inv.set_operation_mode, OM.ECO_DISCHARGE, 9, 100)
        return r.call(inv.set_operation_mode, getattr(OM, arg))
    if k == 'write':
        sid, _, v = arg.partition('=')
        if sid == 'eco_mode_1':
            return r.call(inv.write_setting, sid, group_bytes(inv, v))
        return r.call(inv.write_setting, sid, int(v))
    if name == 'env:neighbour':
        return neighbour(r, cfg)
    if name == 'env:keep-alive-on':
        inv.set_keep_alive(True)
        return None
    if name == 'env:new-loop':
        r.newloop()                # the calls so far ran in one asyncio.run(), the following ones run in the next
        r.loops = getattr(r, 'loops', 0) + 1
        return None
    if name == 'env:slow-device':
        dev.latency = 0.6          # of the timeout (1): two requests of one call together last longer than one timeout
        return None
    if k == 'dev':
        if arg.startswith('reject-next'):
            if hasattr(dev, 'reject_at'):
                dev.reject_at = {len(dev.log): int(arg.split(':')[1])}
            return None
        if arg == 'lose-next-request':
            dev_log = dev.log
            if hasattr(dev, 'drop_at'):
                dev.drop_at = {len(dev_log)}
            return None
        if fam == 'ET':
            if arg == 'battery-off':
                dev.rf.set(35184, 0)
            elif arg == 'battery-on':
                dev.rf.set(35184, 2)
            elif arg == 'refuse-mppt':
                dev.refused = dev.refused + ET_OPTIONAL['mppt']
            elif arg == 'refuse-meter-ext2':
                dev.refused = dev.refused + ET_OPTIONAL['meter_ext2']
            elif arg == 'refuse-battery':
                dev.refused = dev.refused + ET_OPTIONAL['battery']
        if arg.startswith('group1='):
            s = inv._settings['eco_mode_1']
            v2 = type(s).__name__ != 'EcoModeV1'
            b = (bytes.fromhex('0000173bfc7f00fa00640000') if v2 else ECO_V1_BASE[3]) if arg.endswith('peak-typed') else bytes([99] * (12 if v2 else 8))
            dev.rf.setbytes(s.offset, b)
        if fam == 'ET' and not arg.startswith('group1'):
            return r.call(inv.read_runtime_data)
        return None
    raise ValueError(name)


def state_of(r):
    inv, dev = r.inv, r.dev
    sens = []
    for sid in ('eco_mode_1', 'eco_mode_2', 'peak_shaving_mode'):
        s = inv._settings.get(sid)
        if s is not None:
            sens.append((sid, str(getattr(s, 'schedule_type', None)), getattr(s, 'power', None), getattr(s, 'on_off', None)))
    regs = tuple(sorted(dev.rf.regs.items())) if hasattr(dev, 'rf') else ()
    blob = bytes(getattr(dev, 'settings', b''))
    from .explore import obj_state
    return h((obj_state(inv, r.loop.time()), obj_state(inv._protocol, r.loop.time()) if hasattr(inv, '_protocol') else None,
              tuple(sorted((k, v) for k, v in vars(inv).items() if k.startswith('_has'))), tuple(sorted(inv._settings)),
              len(world.listed(inv)), tuple(sens), regs, blob, tuple(getattr(dev, 'refused', ())),
              getattr(inv._protocol, '_retry', 0), inv._consecutive_failures_count,
              tuple(sorted(getattr(dev, 'drop_at', ())) and [1]),
              tuple(sorted((k - len(dev.log), v) for k, v in getattr(dev, 'reject_at', {}).items())),
              min(getattr(r, 'neighbours', 0), 1), getattr(dev, 'latency', None), min(getattr(r, 'loops', 0), 1)))


def probes(r, cfg):
    """-> list of (property, clause, cause).  Each probe is self-contained and leaves legal state behind."""
    inv, dev = r.inv, r.dev
    fam = cfg['family']
    out = []

    def reads_only(l0, what):
        w = [q for q in dev.log[l0:] if q.get('fn') not in (3, 'read')]
        if w:
            out.append(('C18', f'read-only/{what}', f'{what} transmitted {str(w[0])[:80]}'))
    if hasattr(dev, 'drop_at'):
        dev.drop_at = set()
    if hasattr(dev, 'reject_at'):
        dev.reject_at = {}
    # C15 + C18: runtime read (the same poll is judged for C12 / C13 / C14 below)
    from .checks.c14 import Probe, _known as _known14
    l0 = len(dev.log)
    with Probe() as short_reads:
        res = r.call(inv.read_runtime_data)
        if res[0] != 'ok':
            res = r.call(inv.read_runtime_data)     # "no later than the second call"
    reads_only(l0, 'read_runtime_data')
    for sid, pos, size, got, win in short_reads.short:
        if ('C14', f'reads-inside-answer/{fam}/{sid}') not in _known14():
            out.append(('C14', f'reads-inside-answer/{fam}/{sid}', f'{sid}: read {size} bytes at payload position {pos}, got {got} (window {win[0]}+{win[1]})'))
    if res[0] != 'ok':
        out.append(('C15', 'runtime-read-succeeds-by-second-call', str(res)[:80]))
        return out
    data = res[1]
    if world.listed(inv).error:
        out.append(('C15', 'sensors()-works', world.listed(inv).error))
        out.append(('C16', 'sensors()-works', world.listed(inv).error))
        return out
    ids = [s.id_ for s in world.listed(inv)]
    if set(data) != set(ids):
        out.append(('C15', 'keys==sensors()', f'only in result {sorted(set(data) - set(ids))[:3]}, only in sensors() {sorted(set(ids) - set(data))[:3]}'))
    out += poll_probe(r, cfg, data, l0)
    # C16 (+C18): single reads of a few ids: colliding ids, first/last, battery / meter representatives
    if fam != 'ES':
        both = sorted(set(ids) & set(inv._settings))
        cand = list(dict.fromkeys(both + ids[1:3] + ids[-2:] + [x for x in ids if x in ('battery_soc', 'meter_e_total_exp', 'vpv1', 'e_day', 'meter_current1')]))
        for sid in cand:
            s = [x for x in world.listed(inv) if x.id_ == sid][-1]
            if type(s).__name__ in ('Calculated', 'EnumCalculated', 'EnumBitmap22') or sid in ('apparent_power2', 'apparent_power3'):
                continue
            l0 = len(dev.log)
            one = r.call(inv.read_sensor, sid)
            reads_only(l0, 'read_sensor')
            b = data.get(sid)
            if one[0] == 'ok':
                if not (refdec.same(one[1], b) or one[1] == b):
                    out.append(('C16', f'single==bulk/{type(s).__name__}', f'{sid}: single {one[1]!r}, bulk {b!r}'))
            elif not (one[1] == 'ValueError' and b is None):
                out.append(('C16', f'single-read-works/{type(s).__name__}', f'{sid}: {one[1:]}'))
    # C17: write + read back (scalar, one-byte, group)
    def wr(sid, v, want_regs=None):
        s = inv._settings.get(sid)
        if s is None:
            return
        w0 = len(dev.writes)
        a = r.call(inv.write_setting, sid, v)
        if a[0] != 'ok':
            out.append(('C17', f'write-succeeds/{type(s).__name__}', f'{sid}: {a[1:]}'))
            return
        if len(dev.writes) - w0 != 1:
            out.append(('C17', f'exactly-one-write/{type(s).__name__}', f'{sid}: {len(dev.writes) - w0} write requests'))
        l0_ = len(dev.log)
        b = r.call(inv.read_setting, sid)
        reads_only(l0_, 'read_setting')
        if isinstance(v, bytes):
            ref = refdec.decode(s, v)
            if b[0] != 'ok' or not hasattr(b[1], 'start_h') or refdec.group_matches(b[1], ref):
                out.append(('C17', f'reads-back/{type(s).__name__}', f'{sid}: {str(b)[:80]}'))
        elif b[0] != 'ok' or b[1] != v:
            out.append(('C17', f'reads-back/{type(s).__name__}', f'{sid}: wrote {v}, read {str(b)[:60]}'))
    if fam in ('ET', 'DT'):
        wr('grid_export_limit', 4321 if fam == 'ET' or cfg['tag'] != 'DTU' else 77)
        for sid in sorted(set(ids) & set(inv._settings)):      # ids that are both a sensor and a setting
            if type(inv._settings[sid]).__name__ == 'Integer':
                wr(sid, 3)
    if fam in ('ET', 'ES'):
        wr('eco_mode_3_switch', -1)
        wr('eco_mode_3', group_bytes(inv, 'charge'))
        wr('eco_mode_3', group_bytes(inv, 'charge'))       # the same value again
    # C19: round trips
    if fam in ('ET', 'ES'):
        # (the arguments of the history letters come first: a probe call that repeats the history's last call must work too)
        for m, p, soc in ((OM.ECO_CHARGE, 45, 80), (OM.ECO_DISCHARGE, 9, 100), (OM.ECO_CHARGE, 55, 70), (OM.GENERAL, 100, 100),
                          (OM.ECO_DISCHARGE, 9, 100), (OM.BACKUP, 100, 100), (OM.OFF_GRID, 100, 100)):   # (plain ECO is judged in C19 itself: the getter classifies group 1)
            a = r.call(inv.set_operation_mode, m, p, soc)
            if a[0] != 'ok':
                continue
            l0 = len(dev.log)
            g = r.call(inv.get_operation_mode)
            reads_only(l0, 'get_operation_mode')
            if g[0] != 'ok' or g[1] != m:
                out.append(('C19', f'getter-returns-mode/{m.name}', f'set {m.name} then get -> {str(g)[:60]}'))
            if m in (OM.ECO_CHARGE, OM.ECO_DISCHARGE):
                s = inv._settings['eco_mode_1']
                v2 = type(s).__name__ != 'EcoModeV1'
                raw = dev.rf.getbytes(s.offset, 6 if v2 else 4)
                ref = refdec.decode_schedule(raw) if v2 else refdec.decode_eco_v1(raw)
                if ref is refdec.NOVALUE:
                    out.append(('C19', 'group1-decodes', raw.hex()))
                else:
                    gp_ = refdec.power_percent(ref['schedule_type'], ref['power']) if v2 else ref['power']
                    if gp_ != (-p if m == OM.ECO_CHARGE else p) or (v2 and ref['schedule_type'] not in (0, 6)):
                        out.append(('C19', f'group1-power/{m.name}', f'requested {p}, group 1 = {raw.hex()}'))
        for d in (99, 30, 0, 37, 100):
            a = r.call(inv.set_ongrid_battery_dod, d)
            l0 = len(dev.log)
            g = r.call(inv.get_ongrid_battery_dod)
            reads_only(l0, 'get_ongrid_battery_dod')
            if a[0] == 'ok' and (g[0] != 'ok' or g[1] != d):
                out.append(('C19', 'dod-round-trip', f'set {d}, get -> {str(g)[:60]}'))
    for x in (5000, 1, 0, 1234):
        a = r.call(inv.set_grid_export_limit, x)
        l0 = len(dev.log)
        g = r.call(inv.get_grid_export_limit)
        reads_only(l0, 'get_grid_export_limit')
        if a[0] == 'ok' and (g[0] != 'ok' or g[1] != x):
            out.append(('C19', 'export-limit-round-trip', f'set {x}, get -> {str(g)[:60]}'))
    # C19: the setters do not disturb each other - what one of them set is still what its getter returns after the others
    # were used (every mode; limits set before)
    a = r.call(inv.set_grid_export_limit, 4321 if not (fam == 'DT' and cfg['tag'] == 'DTU') else 77)
    want_x = 4321 if not (fam == 'DT' and cfg['tag'] == 'DTU') else 77
    b = r.call(inv.set_ongrid_battery_dod, 37) if fam in ('ET', 'ES') else ('skip',)
    if fam in ('ET', 'ES'):
        for m in (OM.GENERAL, OM.OFF_GRID, OM.BACKUP, OM.ECO, OM.ECO_CHARGE, OM.ECO_DISCHARGE, OM.PEAK_SHAVING, OM.SELF_USE):
            sm = r.call(inv.set_operation_mode, m, 40, 60)
            if sm[0] != 'ok':
                continue
            g = r.call(inv.get_grid_export_limit)
            if a[0] == 'ok' and (g[0] != 'ok' or g[1] != want_x):
                out.append(('C19', f'export-limit-survives-set_operation_mode/{m.name}', f'limit set to {want_x}, then mode {m.name}: get -> {str(g)[:60]}'))
            g = r.call(inv.get_ongrid_battery_dod)
            if b[0] == 'ok' and (g[0] != 'ok' or g[1] != 37):
                out.append(('C19', f'dod-survives-set_operation_mode/{m.name}', f'DoD set to 37, then mode {m.name}: get -> {str(g)[:60]}'))
        last = r.call(inv.get_operation_mode)
        r.call(inv.set_grid_export_limit, 1111)
        r.call(inv.set_ongrid_battery_dod, 55)
        again = r.call(inv.get_operation_mode)
        if last[0] == 'ok' and again != last:
            out.append(('C19', 'mode-survives-the-limit-setters', f'mode {last[1]}, then export limit and DoD set: get -> {str(again)[:60]}'))
    if dev.bad:
        out.append(('C03', 'requests-parse', str(dev.bad[0][1])))
    return out


def poll_probe(r, cfg, d, l0):
    """The poll that followed the history, judged value by value: (C12) every reported value whose registers lie inside
    a block this poll fetched is the documented reading of the device model's registers at the sensor's address; (C13)
    the derived and label sensors agree with the raw sensors of the same result."""
    from .blocks import own_span, tname
    from .sensor_enum import compare
    from .checks.c13 import relations
    inv, dev = r.inv, r.dev
    fam = cfg['family']
    out = []
    windows = [(q['reg'], q['reg'] + q['count'] - 1) for q in dev.log[l0:] if q.get('fn') == 3]
    listed = list(world.listed(inv))
    ids = [s.id_ for s in listed]
    # (ids the result carries although sensors() does not list them are judged as well, by their definition in the
    # family's sensor tables)
    unlisted = set(d) - set(ids)
    if unlisted and fam != 'ES':
        for name, tab in world.tables(world.FAMILIES[fam]).items():
            if 'settings' in name:
                continue
            for s in tab:
                if s.id_ in unlisted:
                    unlisted.discard(s.id_)
                    listed.append(s)
                    ids.append(s.id_)
    for s in listed:
        if not own_span(s) or s.id_ not in d or ids.count(s.id_) > 1:
            continue
        nb = refdec.size_of(s)
        if fam == 'ES':
            if s.offset + nb > len(dev.runtime):
                continue
            own = bytes(dev.runtime[s.offset:s.offset + nb])
        else:
            if not any(lo <= s.offset and s.offset + (nb + 1) // 2 - 1 <= hi for lo, hi in windows):
                # a value is reported although this poll fetched none of its registers (known: the two Apparent4 sensors
                # at the end of the MPPT window, KNOWN_FINDINGS)
                from .checks.c14 import _known as _k14
                if not any(lo <= s.offset <= hi for lo, hi in windows) and ('C14', f'sensor-inside-window/{fam}/{s.id_}') not in _k14():
                    out.append(('C14', f'reported-only-if-fetched/{fam}', f'{s.id_} @{s.offset} = {d[s.id_]!r} is in the result, the poll fetched {windows}'))
                    out.append(('C12', f'documented-reading/{tname(s)}/not-fetched-by-this-poll', f'{s.id_} @{s.offset} = {d[s.id_]!r} is in the result, '
                                                                                               f'the poll fetched none of its registers'))
                continue
            own = dev.rf.getbytes(s.offset, (nb + 1) // 2)[:nb]
        ref = refdec.decode(s, own)
        got = ('ValueError', '') if (d[s.id_] is None and ref is refdec.NOVALUE) else ('value', d[s.id_])
        df = compare(s, got, ref)
        if df:
            out.append(('C12', f'documented-reading/{tname(s)}', f'{s.id_} @{s.offset} = {own.hex()}: {df}'))
    hidden = {}
    if fam == 'ET':
        for s in world.tables(world.FAMILIES['ET'])['all_sensors']:
            if s.id_ in ('ppv1', 'ppv2', 'ppv3', 'ppv4') and s.id_ not in d:
                v = refdec.decode(s, dev.rf.getbytes(s.offset, 2))
                hidden[s.id_] = None if v is refdec.NOVALUE else v
    for name, cause in relations(fam, inv, d, hidden):
        out.append(('C13', name, cause))
    return out


def build(cfg, hist):
    r = make_rig(cfg, fill=lambda a: (a * 31 + 7) % 3000)
    dev = r.dev
    if cfg['family'] == 'ET':
        dev.rf.set(35184, cfg['battery_mode'])
        dev.rf.set(47000, 0)
        dev.rf.set(45356, 20)
        dev.rf.setbytes(47515, ECO_V1_BASE[0])
        dev.rf.setbytes(47547, SCHED_BASE[0])
    elif cfg['family'] == 'ES':
        dev.rf.setbytes(1793, ECO_V1_BASE[0])
        dev.rf.setbytes(47547, SCHED_BASE[0])
    if r.call(r.inv.read_device_info)[0] != 'ok':
        return None
    for name in hist:
        do(r, cfg, name)
    return r


def _job(j):
    cfg, depth, props, first = j
    names = alphabet(cfg['family'])
    seen = set()
    frontier = collections.deque([[first] if first else []])
    vio = {}
    n = 0
    edges = 0
    while frontier:
        hist = frontier.popleft()
        r = build(cfg, hist)
        if r is None:
            continue
        st = state_of(r)
        n += 1
        for prop, clause, cause in probes(r, cfg):
            if prop in props:
                vio.setdefault((prop, clause), []).append((hist, cause))
        if st in seen:
            continue
        seen.add(st)
        if len(hist) >= depth or (first is None and depth > 1):
            continue      # (the root job only evaluates the empty history; the subtrees are separate jobs)
        for nm in names:
            frontier.append(hist + [nm])
            edges += 1
    out = []
    for (prop, clause), lst in vio.items():
        lst.sort(key=lambda x: len(x[0]))
        hist, cause = lst[0]
        out.append(dict(prop=prop, key=f"api-session:{clause}/{cfg['name']}/after:{'+'.join(dict.fromkeys(x.split('=')[0] for x in hist)) or 'nothing'}",
                        clause=clause, n=len(lst), replay=dict(part='api-session', cfg=cfg, history=hist),
                        detail=dict(cause=cause, history=hist)))
    return n, len(seen), edges, out


def explore(tier, seed, props, light=False):
    depth = 2 if tier == 'quick' else 3
    cfgs = CONFIGS if tier != 'quick' else [CONFIGS[0], CONFIGS[3], CONFIGS[5], CONFIGS[6]]
    jobs = [(c, depth, props, first) for c in cfgs for first in [None] + alphabet(c['family'])]
    if tier == 'quick':
        # the configurations the quick tier leaves to the thorough one are still explored to depth 1
        jobs += [(c, 1, props, None) for c in CONFIGS if c not in cfgs]
    k = seed % len(jobs)
    jobs = jobs[k:] + jobs[:k]
    tot = dict(histories=0, states=0, edges=0, violations=[])
    for n, s, e, out in pmap(_job, jobs):
        tot['histories'] += n
        tot['states'] += s
        tot['edges'] += e
        tot['violations'] += out
    return tot


def replay(r):
    cfg = r['cfg']
    cfg['refused'] = tuple(cfg['refused'])
    if isinstance(cfg.get('firmware'), dict):
        cfg['firmware'] = bytes.fromhex(cfg['firmware']['hex'])
    rg = build(cfg, r['history'])
    return dict(history=r['history'], violations=probes(rg, cfg) if rg else ['device info failed'])
