"""Engine K: the unmodified CPython selector event loop and selector transports over a modelled kernel.

Only the layer *below* asyncio is a model: sockets, the selector and the clock.  Everything above it
(`BaseSelectorEventLoop._run_once`, timers, `Task`, `Future`, `Lock`, `wait_for`,
`_SelectorDatagramTransport`, `_SelectorSocketTransport`) is the real code of the interpreter that also
runs the repository's test-suite.
"""
from __future__ import annotations

import asyncio
import errno
import heapq
import itertools
import math
import selectors
import socket
import weakref
from asyncio import events, selector_events


class Hang(Exception):
    """The loop would block forever (nothing scheduled, nothing in flight) or the execution was aborted."""


class BusyLoop(KeyboardInterrupt):
    """Raised by the wall-clock watchdog.  Derived from KeyboardInterrupt because asyncio swallows ordinary
    exceptions raised inside callbacks and task steps, but lets KeyboardInterrupt through."""


TX_CAP = 64
BUSY_HITS = 0     # how often the wall-clock watchdog fired in this process (explorers stop early when it does)


# names the modelled resolver knows (host strings an application may configure instead of an IP literal)
RESOLVER = {'inverter.local': '10.0.0.2', 'localhost': '127.0.0.1', '10.0.2': '10.0.0.2'}


class FakeSock:
    """Duck-typed non-blocking socket; the peer decides what comes back."""

    def __init__(self, kern: "Kernel", kind: str, remote):
        self.kern = kern
        self.kind = kind  # 'udp' | 'tcp'
        self.family = socket.AF_INET
        self.type = socket.SOCK_DGRAM if kind == 'udp' else socket.SOCK_STREAM
        self.proto = socket.IPPROTO_UDP if kind == 'udp' else socket.IPPROTO_TCP
        self.fd = next(kern.fdgen)
        self.remote = remote
        self.rx = []  # arrived, unread items: ('data', bytes) | ('eof',) | ('err', exc)
        self.closed = False
        self.opts = []
        self.peer = kern.peer_for(remote)
        kern.socks[self.fd] = self
        kern.log.append(('open', kind, self.fd, kern.now))

    # --- socket API used by the asyncio transports
    def fileno(self):
        return -1 if self.closed else self.fd

    def setblocking(self, flag):
        pass

    def getsockname(self):
        return ('10.0.0.1', 40000 + self.fd)

    def getpeername(self):
        return self.remote

    def setsockopt(self, *a):
        # what Linux accepts for the options the library sets (tcp(7)): keep-alive idle / interval 1..32767 s, probe count
        # 1..127; anything else is EINVAL - an environment answer like any other
        import socket as _s
        if len(a) == 3 and a[0] == _s.IPPROTO_TCP and isinstance(a[2], int):
            lim = {getattr(_s, 'TCP_KEEPIDLE', -1): 32767, getattr(_s, 'TCP_KEEPINTVL', -2): 32767, getattr(_s, 'TCP_KEEPCNT', -3): 127}.get(a[1])
            if lim is not None and not 1 <= a[2] <= lim:
                raise OSError(errno.EINVAL, 'Invalid argument')
        if len(a) == 3 and not isinstance(a[2], (int, bytes, bytearray)):
            raise TypeError('a bytes-like object is required')
        self.opts.append(a)

    def getsockopt(self, *a):
        return 0

    def readable(self):
        return bool(self.rx) and not self.closed

    def recvfrom(self, n):
        if not self.rx:
            raise BlockingIOError(errno.EAGAIN, 'again')
        item = self.rx.pop(0)
        self.kern.log.append(('rx', self.fd, self.kern.now, item[0], item[1] if item[0] == 'data' else None))
        if item[0] == 'err':
            raise item[1]
        if item[0] == 'eof':
            return b'', self.remote
        return item[1], self.remote

    def recv(self, n):
        if not self.rx:
            raise BlockingIOError(errno.EAGAIN, 'again')
        if self.rx[0][0] == 'err':
            item = self.rx.pop(0)
            self.kern.log.append(('rx', self.fd, self.kern.now, 'err', None))
            raise item[1]
        if self.rx[0][0] == 'eof':
            self.kern.log.append(('rx', self.fd, self.kern.now, 'eof', None))
            return b''  # sticky
        out = b''
        while self.rx and self.rx[0][0] == 'data':
            out += self.rx.pop(0)[1]
        self.kern.log.append(('rx', self.fd, self.kern.now, 'data', out))
        return out

    def send(self, data):
        data = bytes(data)
        k = self.kern
        k.ntx += 1
        k.log.append(('tx', self.fd, k.now, data))
        if k.ntx > k.tx_cap:
            k.abort = 'flood'
            return len(data)
        self.peer.on_send(self, data)  # may raise OSError (send error chosen by the script)
        return len(data)

    def sendto(self, data, addr):
        return self.send(data)

    def shutdown(self, how):
        pass

    def close(self):
        if not self.closed:
            self.closed = True
            self.kern.log.append(('close', self.kind, self.fd, self.kern.now))
            self.kern.socks.pop(self.fd, None)

    def detach(self):
        return self.fd


class Kernel:
    """Virtual clock + in-flight network items + socket table; doubles as the selector object."""

    def __init__(self, peer=None, peers=None, ctx=None):
        self.now = 0.0
        self.q = []
        self.seq = itertools.count()
        self.fdgen = itertools.count(1000)
        self.socks = {}
        self.keys = {}
        self.log = []
        self.ntx = 0
        self.tx_cap = TX_CAP
        self.idle_hook = None
        self.abort = None
        self.ctx = ctx
        self.peers = dict(peers or {})
        self.default_peer = peer
        for p in ([peer] if peer is not None else []) + list(self.peers.values()):
            p.kern = self
        self._transports = []  # weak references to every real transport object the loop created (C10)

    @property
    def transports(self):
        """the transports that are still alive (weakly held: a transport nobody references any more is collected and
        its socket closed by the transport's own __del__, exactly as in production)"""
        return [t for t in (r() for r in self._transports) if t is not None]

    def peer_for(self, remote):
        host = remote[0] if remote else None
        return self.peers.get(host, self.default_peer)

    # --- network
    def at(self, when, sock, item):
        heapq.heappush(self.q, (when, next(self.seq), sock, item))

    def _arrive(self):
        while self.q and self.q[0][0] <= self.now:
            _, _, sock, item = heapq.heappop(self.q)
            if callable(item):
                item()
            elif not sock.closed:
                sock.rx.append(item)
            else:
                self.log.append(('lost', sock.fd, self.now, item[0]))

    # --- selector API
    def register(self, fileobj, ev, data=None):
        key = selectors.SelectorKey(fileobj, fileobj, ev, data)
        self.keys[fileobj] = key
        return key

    def unregister(self, fileobj):
        return self.keys.pop(fileobj)

    def modify(self, fileobj, ev, data=None):
        key = selectors.SelectorKey(fileobj, fileobj, ev, data)
        self.keys[fileobj] = key
        return key

    def get_map(self):
        return self.keys

    def get_key(self, fileobj):
        return self.keys[fileobj]

    def close(self):
        pass

    def _ready(self):
        out = []
        for fd, key in self.keys.items():
            s = self.socks.get(fd)
            if s is None:
                continue
            m = 0
            if key.events & selectors.EVENT_READ and s.readable():
                m |= selectors.EVENT_READ
            if key.events & selectors.EVENT_WRITE:
                m |= selectors.EVENT_WRITE
            if m:
                out.append((key, m))
        if len(out) >= 2 and self.ctx is not None:
            # which of several ready descriptors the OS reports first is not ours to assume
            first = self.ctx.choose('select-order', list(range(len(out))))
            if first:
                out.insert(0, out.pop(first))
        return out

    def select(self, timeout=None):
        if self.abort:
            raise Hang(self.abort)
        self._arrive()
        r = self._ready()
        if r or timeout == 0:
            return r
        while self.idle_hook is not None and self.idle_hook():
            # every runnable task has run until it blocked: the environment may now release a parked answer
            # (an answer released to an already closed socket is lost; try the next one before time moves on)
            self._arrive()
            r = self._ready()
            if r:
                return r
        nxt = self.q[0][0] if self.q else None
        if timeout is None:
            if nxt is None:
                raise Hang('idle forever')
            self.now = max(self.now, nxt)
        else:
            target = self.now + timeout
            if target <= self.now:
                target = math.nextafter(self.now, math.inf)
            self.now = nxt if (nxt is not None and nxt <= target) else target
        self._arrive()
        return self._ready()


class KLoop(selector_events.BaseSelectorEventLoop):
    """The real selector event loop with the Kernel as its selector and clock."""

    def __init__(self, peer=None, kern: Kernel | None = None, peers=None, ctx=None):
        self.kern = kern or Kernel(peer, peers, ctx)
        self.kern.keys = {}
        super().__init__(self.kern)
        self._clock_resolution = 1e-9
        self.unhandled = []
        self.set_exception_handler(lambda loop, c: self.unhandled.append(c))

    def _make_self_pipe(self):
        self._ssock = self._csock = None
        self._internal_fds = 0

    def _close_self_pipe(self):
        pass

    def _write_to_self(self):
        pass

    def time(self):
        return self.kern.now

    async def create_datagram_endpoint(self, protocol_factory, local_addr=None, remote_addr=None, **kw):
        # name resolution: a host given as a name (or a non-canonical spelling) is resolved; what recvfrom() reports as the
        # source of a datagram is the RESOLVED address, not the configured string
        if remote_addr and remote_addr[0] in RESOLVER:
            remote_addr = (RESOLVER[remote_addr[0]], remote_addr[1])
        # connecting the datagram socket can fail at once (no route, interface down, EACCES on a broadcast address)
        peer0 = self.kern.peer_for(remote_addr)
        hook = getattr(peer0, 'on_udp_connect', None)
        if hook is not None:
            o = hook()
            if o != 'ok':
                self.kern.log.append(('connect', o, self.kern.now))
                raise OSError(errno.ENETUNREACH if o == 'netunreach' else errno.EACCES, 'connect: ' + o)
        sock = FakeSock(self.kern, 'udp', remote_addr)
        protocol = protocol_factory()
        waiter = self.create_future()
        transport = self._make_datagram_transport(sock, protocol, remote_addr, waiter)
        self.kern._transports.append(weakref.ref(transport))
        try:
            await waiter
        except BaseException:
            transport.close()
            raise
        return transport, protocol

    async def create_connection(self, protocol_factory, host=None, port=None, **kw):
        k = self.kern
        host = RESOLVER.get(host, host)
        peer = k.peer_for((host, port))
        outcome, latency = peer.on_connect()
        k.log.append(('connect', outcome, k.now))
        fut = self.create_future()
        if outcome == 'refused':
            k.at(k.now + latency, None,
                 lambda: fut.done() or fut.set_exception(ConnectionRefusedError(errno.ECONNREFUSED, 'refused')))
        elif outcome == 'unreachable':
            k.at(k.now + latency, None,
                 lambda: fut.done() or fut.set_exception(OSError(errno.EHOSTUNREACH, 'No route to host')))
        elif outcome == 'hang':
            pass  # only the caller's own guard (wait_for) ends it
        else:
            k.at(k.now + latency, None, lambda: fut.done() or fut.set_result(None))
        await fut
        k.log.append(('connected', k.now))
        sock = FakeSock(k, 'tcp', (host, port))
        transport, protocol = await self._create_connection_transport(sock, protocol_factory, None, None)
        k._transports.append(weakref.ref(transport))
        return transport, protocol

    # --- driving helpers
    REAL_TIME_BUDGET = 20.0   # seconds of wall-clock per run(): a busy loop inside the library must not hang the checker

    def run(self, coro):
        """run_until_complete that always restores 'no running loop' and reports Hang as a value."""
        import signal
        import threading

        def on_alarm(signum, frame):
            raise BusyLoop('real-time budget exceeded: the code under test spins without returning to the event loop')
        armed = threading.current_thread() is threading.main_thread()
        if armed:
            old = signal.signal(signal.SIGALRM, on_alarm)
            signal.setitimer(signal.ITIMER_REAL, self.REAL_TIME_BUDGET)
        try:
            return ('done', self.run_until_complete(coro))
        except (Hang, BusyLoop) as e:
            if isinstance(e, BusyLoop):
                global BUSY_HITS
                BUSY_HITS += 1
            if armed:
                signal.setitimer(signal.ITIMER_REAL, 0)
            try:
                coro.close()
            except BaseException:  # noqa: BLE001
                pass
            return ('hang', str(e))
        finally:
            if armed:
                signal.setitimer(signal.ITIMER_REAL, 0)
                signal.signal(signal.SIGALRM, old)
            events._set_running_loop(None)

    def settle(self, dt=0.0):
        """Let already queued callbacks (connection_lost, ...) run."""
        return self.run(asyncio.sleep(dt))

    def shutdown_like_asyncio_run(self):
        """What asyncio.run() does when main() returned: cancel leftovers, close the loop."""
        try:
            tasks = [t for t in asyncio.all_tasks(self) if not t.done()]
            for t in tasks:
                t.cancel()
            if tasks:
                self.run(asyncio.gather(*tasks, return_exceptions=True))
            self.run(self.shutdown_asyncgens())
        finally:
            events._set_running_loop(None)
            self.close()
